------------------------------- MODULE Codec -------------------------------
(***************************************************************************)
(* The input codec (src/network/compression.rs + the bitfield-rle crate)   *)
(* as functions over byte sequences.                                       *)
(*                                                                         *)
(*   encode(ref, inputs) = RLEEncode(DeltaEncode(ref, inputs))             *)
(*   decode(ref, bytes)  = DeltaDecode(ref, RLEDecode(bytes))              *)
(*                                                                         *)
(* Delta layer: per input a 2-byte little-endian length prefix, then the   *)
(* input XORed with the previous input (the reference for the first one)   *)
(* up to the shorter of the two, the remainder verbatim.                   *)
(* RLE layer: a sequence of blocks, each introduced by a varint v          *)
(* (7 bits per byte, least significant group first, bit 7 = continuation): *)
(*   v odd : a run of (v >> 2) bytes, 0xFF if bit 1 is set, else 0x00      *)
(*   v even: (v >> 1) literal bytes follow                                 *)
(* Decoding is total: Err for a truncated varint, a varint longer than 9   *)
(* bytes, a literal block that leaves the buffer, a decoded size above     *)
(* MaxDecodedLen, more than MaxInputs inputs, a truncated length prefix or  *)
(* truncated input data.                                                   *)
(***************************************************************************)
EXTENDS Integers, Sequences, Bitwise

\* results are tagged: Err, or Ok(value)
Err == [err |-> TRUE]
Ok(v) == [err |-> FALSE, v |-> v]
IsErr(r) == r.err
MaxDecodedLen == 129 * (65535 + 2)

\* ---------------------------------------------------------------------------
\* varint at position pos (1-based): <<ok, value, next position>>; at most 4 bytes are followed
\* here (values < 2^28 keep TLC's 32-bit integers exact); longer ones are reported as "long"
RECURSIVE VarintFrom(_, _, _, _, _)
VarintFrom(b, pos, shiftMul, acc, n) ==
  IF pos > Len(b) THEN <<"trunc", 0, pos>>
  ELSE IF n > 4 THEN <<"long", 0, pos>>
  ELSE LET byte == b[pos]
           v == acc + (byte % 128) * shiftMul
       IN IF byte < 128 THEN <<"ok", v, pos + 1>>
          ELSE VarintFrom(b, pos + 1, shiftMul * 128, v, n + 1)

Varint(b, pos) == VarintFrom(b, pos, 1, 0, 1)

\* decoded length and validity of an RLE stream: <<status, decoded length>>
RECURSIVE RLEScan(_, _, _)
RLEScan(b, pos, total) ==
  IF pos > Len(b) THEN <<"ok", total>>
  ELSE LET v == Varint(b, pos)
       IN IF v[1] # "ok" THEN <<v[1], total>>
          ELSE LET val == v[2]
                   run == val % 2 = 1
                   len == IF run THEN val \div 4 ELSE val \div 2
               IN IF ~run /\ len > Len(b) - (v[3] - 1) THEN <<"literal-trunc", total>>
                  ELSE IF total + len > MaxDecodedLen THEN <<"too-big", total + len>>
                  ELSE RLEScan(b, IF run THEN v[3] ELSE v[3] + len, total + len)

RECURSIVE RLEDecodeFrom(_, _)
RLEDecodeFrom(b, pos) ==
  IF pos > Len(b) THEN <<>>
  ELSE LET v == Varint(b, pos)
           val == v[2]
           run == val % 2 = 1
           len == IF run THEN val \div 4 ELSE val \div 2
           fill == IF (val \div 2) % 2 = 1 THEN 255 ELSE 0
       IN IF run THEN [i \in 1..len |-> fill] \o RLEDecodeFrom(b, v[3])
          ELSE SubSeq(b, v[3], v[3] + len - 1) \o RLEDecodeFrom(b, v[3] + len)

\* Err or Ok(decoded byte sequence)
RLEDecode(b) == IF RLEScan(b, 1, 0)[1] = "ok" THEN Ok(RLEDecodeFrom(b, 1)) ELSE Err

XorSeq(x, base) == [i \in 1..Len(x) |-> IF i <= Len(base) THEN x[i] ^^ base[i] ELSE x[i]]

\* Err or a sequence of inputs (byte sequences); more than MaxInputs inputs is an error
MaxInputs == 256
RECURSIVE DeltaDecodeFrom(_, _, _, _)
DeltaDecodeFrom(base, d, pos, n) ==
  IF pos > Len(d) THEN Ok(<<>>)
  ELSE IF pos + 1 > Len(d) THEN Err
  ELSE LET len == d[pos] + 256 * d[pos + 1]
       IN IF pos + 1 + len > Len(d) THEN Err
          ELSE IF n + 1 > MaxInputs THEN Err
          ELSE LET x == XorSeq(SubSeq(d, pos + 2, pos + 1 + len), base)
                   rest == DeltaDecodeFrom(x, d, pos + 2 + len, n + 1)
               IN IF IsErr(rest) THEN Err ELSE Ok(<<x>> \o rest.v)

DeltaDecode(ref, d) == DeltaDecodeFrom(ref, d, 1, 0)

SpecDecode(ref, b) ==
  LET r == RLEDecode(b) IN IF IsErr(r) THEN Err ELSE DeltaDecode(ref, r.v)

\* ---------------------------------------------------------------------------
\* encoder (the canonical greedy encoder of bitfield-rle 0.2.1)

RECURSIVE DeltaEncode(_, _)
DeltaEncode(base, inputs) ==
  IF inputs = <<>> THEN <<>>
  ELSE LET x == Head(inputs)
       IN <<Len(x) % 256, Len(x) \div 256>> \o XorSeq(x, base) \o DeltaEncode(x, Tail(inputs))

RECURSIVE VarintEnc(_)
VarintEnc(v) == IF v > 127 THEN <<(v % 128) + 128>> \o VarintEnc(v \div 128) ELSE <<v>>

\* split d into maximal blocks: runs of equal 0x00/0xFF bytes, literals otherwise
RECURSIVE RunLen(_, _, _)
RunLen(d, pos, byte) == IF pos <= Len(d) /\ d[pos] = byte THEN 1 + RunLen(d, pos + 1, byte) ELSE 0
RECURSIVE LitLen(_, _)
LitLen(d, pos) == IF pos <= Len(d) /\ d[pos] # 0 /\ d[pos] # 255 THEN 1 + LitLen(d, pos + 1) ELSE 0

RECURSIVE RLEEncodeFrom(_, _)
RLEEncodeFrom(d, pos) ==
  IF pos > Len(d) THEN <<>>
  ELSE IF d[pos] = 0 \/ d[pos] = 255
       THEN LET n == RunLen(d, pos, d[pos])
            IN VarintEnc(n * 4 + 1 + (IF d[pos] = 255 THEN 2 ELSE 0)) \o RLEEncodeFrom(d, pos + n)
       ELSE LET n == LitLen(d, pos)
            IN VarintEnc(n * 2) \o SubSeq(d, pos, pos + n - 1) \o RLEEncodeFrom(d, pos + n)

\* bitfield-rle writes an empty literal block for an empty buffer
RLEEncode(d) == IF d = <<>> THEN <<0>> ELSE RLEEncodeFrom(d, 1)

SpecEncode(ref, inputs) == RLEEncode(DeltaEncode(ref, inputs))

\* the round-trip theorem instance for one (reference, input sequence)
RoundTrip(ref, inputs) == LET r == SpecDecode(ref, SpecEncode(ref, inputs)) IN ~IsErr(r) /\ r.v = inputs
=============================================================================
