SPECIFICATION Spec
CONSTANTS
  QL = 8
  Peers <- MCPeers
  NumPlayers = 2
  Window = 2
  Sparse = FALSE
  PredDefault = FALSE
  DesyncInterval = 0
  Fps = 60
  Timeout = 2000
  Notify = 500
  Values <- MCValues
  MaxFrame = 3
  LinkCap = 2
  DupBudget = 0
  ClockSteps <- MCClockSteps
  MaxClock = 1000000
  PreSynced = TRUE
INVARIANTS NoViolation NoPanic
VIEW View
CHECK_DEADLOCK FALSE
