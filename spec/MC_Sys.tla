------------------------------- MODULE MC_Sys -------------------------------
(***************************************************************************)
(* Model-checking instances of System.tla: topologies and value domains    *)
(* referenced by the generated MC_*.cfg files (one source of truth: the    *)
(* actions and properties are System.tla's).                               *)
(***************************************************************************)
EXTENDS System

GenPeers2 == << [kind |-> "p2p", locals |-> <<0>>, delay |-> 0, host |-> 0],
                [kind |-> "p2p", locals |-> <<1>>, delay |-> 0, host |-> 0] >>
GenPeers2d == << [kind |-> "p2p", locals |-> <<0>>, delay |-> 1, host |-> 0],
                 [kind |-> "p2p", locals |-> <<1>>, delay |-> 0, host |-> 0] >>
GenPeers21 == << [kind |-> "p2p", locals |-> <<0, 1>>, delay |-> 0, host |-> 0],
                 [kind |-> "p2p", locals |-> <<2>>, delay |-> 1, host |-> 0] >>
GenPeers3 == << [kind |-> "p2p", locals |-> <<0>>, delay |-> 0, host |-> 0],
                [kind |-> "p2p", locals |-> <<1>>, delay |-> 0, host |-> 0],
                [kind |-> "p2p", locals |-> <<2>>, delay |-> 0, host |-> 0] >>
GenPeers1s == << [kind |-> "p2p", locals |-> <<0>>, delay |-> 0, host |-> 0],
                 [kind |-> "spec", locals |-> <<>>, delay |-> 0, host |-> 0] >>
GenPeers2s == << [kind |-> "p2p", locals |-> <<0>>, delay |-> 0, host |-> 0],
                 [kind |-> "p2p", locals |-> <<1>>, delay |-> 0, host |-> 0],
                 [kind |-> "spec", locals |-> <<>>, delay |-> 0, host |-> 1] >>
GenValues == {0, 1}
GenValues1 == {1}      \* (timer models: the input values do not matter)
NoClock == {}
Clk250 == {250}        \* with Notify 300 / Timeout 600: two steps of silence interrupt, three disconnect
Clk350 == {350}

=============================================================================
