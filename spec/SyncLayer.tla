----------------------------- MODULE SyncLayer -----------------------------
(***************************************************************************)
(* src/sync_layer.rs as functional operators.  The save cells are not part *)
(* of the sync-layer record: a GgrsRequest only *names* a cell; the user   *)
(* writes it when executing the request list after the call returned, so   *)
(* every read of a cell inside a call sees what earlier calls saved.       *)
(* `cells` is a function slot -> [frame, hash] owned by the caller.        *)
(***************************************************************************)
EXTENDS InputQueue

SL_New(np, W) ==
  [ np |-> np, W |-> W,
    last_confirmed |-> NullFrame, last_saved |-> NullFrame, cur |-> 0,
    queues |-> [h \in 0..np-1 |-> IQ_New],
    err |-> "" ]

CellsNew(W) == [i \in 0..W |-> [frame |-> NullFrame, hash |-> 0]]
CellSlot(W, f) == f % (W + 1)

SL_Fail(s, msg) == IF s.err = "" THEN [s EXCEPT !.err = msg] ELSE s

\* a queue error surfaces as a sync-layer error
SL_Lift(s) ==
  IF s.err # "" THEN s
  ELSE IF \E h \in 0..s.np-1 : s.queues[h].err # ""
       THEN [s EXCEPT !.err = (LET h == CHOOSE x \in 0..s.np-1 : s.queues[x].err # "" IN s.queues[h].err)]
       ELSE s

\* save_current_state: <<s, request>>
SL_Save(s) == <<[s EXCEPT !.last_saved = s.cur], <<"S", s.cur>>>>

\* load_frame: <<s, request>>
SL_Load(s, cells, f) ==
  LET s1 == IF f = NullFrame THEN SL_Fail(s, "load_frame: null frame")
            ELSE IF ~(f < s.cur) THEN SL_Fail(s, "load_frame: must load frame in the past")
            ELSE IF ~(f >= s.cur - s.W) THEN SL_Fail(s, "load_frame: outside of prediction window")
            ELSE IF cells[CellSlot(s.W, f)].frame # f THEN SL_Fail(s, "load_frame: cell holds another frame")
            ELSE s
  IN <<[s1 EXCEPT !.cur = f], <<"L", f>>>>

SL_SetFrameDelay(s, h, d) ==
  LET r == IQ_SetFrameDelay(s.queues[h], d)
  IN <<[s EXCEPT !.queues[h] = r[1]], r[2]>>

SL_ResetPrediction(s) ==
  [s EXCEPT !.queues = [h \in 0..s.np-1 |-> IQ_ResetPrediction(s.queues[h])]]

\* add_local_input: <<s, frame>>
SL_AddLocalInput(s, h, frame, val) ==
  LET r  == IQ_AddInput(s.queues[h], frame, val)
      s1 == IF frame # s.cur THEN SL_Fail(s, "add_local_input: input.frame != current_frame") ELSE s
  IN <<SL_Lift([s1 EXCEPT !.queues[h] = r[1]]), r[2]>>

SL_AddRemoteInput(s, h, frame, val) ==
  SL_Lift([s EXCEPT !.queues[h] = IQ_AddInput(s.queues[h], frame, val)[1]])

\* synchronized_inputs: <<s, inputs>> (handles in ascending order)
RECURSIVE SL_SyncInputsFrom(_, _, _, _, _)
SL_SyncInputsFrom(s, status, predDefault, h, acc) ==
  IF h >= s.np THEN <<SL_Lift(s), acc>>
  ELSE IF status[h].disc /\ status[h].last < s.cur
       THEN SL_SyncInputsFrom(s, status, predDefault, h + 1, Append(acc, <<Default, Disconnected>>))
       ELSE LET r == IQ_Input(s.queues[h], s.cur, predDefault)
            IN SL_SyncInputsFrom([s EXCEPT !.queues[h] = r[1]], status, predDefault, h + 1,
                                 Append(acc, <<r[2], r[3]>>))

SL_SyncInputs(s, status, predDefault) == SL_SyncInputsFrom(s, status, predDefault, 0, <<>>)

\* confirmed_inputs: <<ok, seq of [frame, input]>>
SL_ConfirmedInputs(s, frame, status) ==
  LET one(h) == IF status[h].disc /\ status[h].last < frame
                THEN <<TRUE, [frame |-> NullFrame, input |-> Default]>>
                ELSE LET c == IQ_ConfirmedInput(s.queues[h], frame)
                     IN <<c[1], [frame |-> frame, input |-> c[2]]>>
  IN << \A h \in 0..s.np-1 : one(h)[1], [i \in 1..s.np |-> one(i-1)[2]] >>

\* set_last_confirmed_frame
SL_SetLastConfirmed(s, frame0, sparse) ==
  LET fiSet == {s.queues[h].first_incorrect : h \in 0..s.np-1}
      firstIncorrect == CHOOSE m \in fiSet : \A x \in fiSet : x <= m      \* max (as the code)
      f1 == IF sparse THEN Min2(frame0, s.last_saved) ELSE frame0
      f2 == Min2(f1, s.cur)
      s1 == IF ~(firstIncorrect = NullFrame \/ firstIncorrect >= f2)
            THEN SL_Fail(s, "set_last_confirmed_frame: beyond first incorrect frame") ELSE s
      s2 == [s1 EXCEPT !.last_confirmed = f2]
  IN IF f2 > 0
     THEN [s2 EXCEPT !.queues = [h \in 0..s.np-1 |-> IQ_Discard(s2.queues[h], f2 - 1)]]
     ELSE s2

\* check_simulation_consistency
SL_CheckConsistency(s, first0) ==
  LET cand == {s.queues[h].first_incorrect : h \in 0..s.np-1} \ {NullFrame}
      all  == cand \cup (IF first0 = NullFrame THEN {} ELSE {first0})
  IN IF all = {} THEN NullFrame ELSE CHOOSE m \in all : \A x \in all : m <= x

\* saved_state_by_frame / latest_saved_state_in_range: slot index or -1
SL_SavedByFrame(W, cells, f) ==
  IF f >= 0 /\ cells[CellSlot(W, f)].frame = f THEN CellSlot(W, f) ELSE -1

SL_LatestSavedInRange(W, cells, a, b) ==
  LET ok == {i \in 0..W : cells[i].frame >= a /\ cells[i].frame <= b}
  IN IF a > b \/ ok = {} THEN -1
     ELSE CHOOSE i \in ok : \A j \in ok : cells[j].frame <= cells[i].frame

SL_Snap(s, cells) ==
  [ current_frame |-> s.cur, last_confirmed |-> s.last_confirmed, last_saved |-> s.last_saved,
    cells |-> [i \in 1..s.W+1 |-> cells[i-1].frame],
    queues |-> [i \in 1..s.np |-> IQ_Snap(s.queues[i-1])] ]
=============================================================================
