------------------------------- MODULE Monitor -------------------------------
(***************************************************************************)
(* The property monitor as a pure function: Update(g, line) consumes one   *)
(* observation line (an API call or a network step of one peer, in the     *)
(* format written by harness/src/world.rs and produced by System.tla's     *)
(* ObsLine) and returns the new ghost state.  It maintains the ghost        *)
(* history of DESIGN.md section 2 (owner-side truth, last simulation per   *)
(* frame, timeline hashes, per-address event automata, silence clocks) and *)
(* appends to g.viol every property predicate that fails.                  *)
(*                                                                         *)
(* It is used twice: by Trace_Obs.tla on traces of the REAL sessions and   *)
(* by System.tla / MC_*.tla during exhaustive exploration of the model, so *)
(* both judge the properties by the very same definitions.                 *)
(*                                                                         *)
(* It demands exactly what the properties state: it knows nothing about    *)
(* retry intervals, save order or packet formats, so a behaviour-          *)
(* preserving change of the implementation cannot raise an alarm here.     *)
(***************************************************************************)
EXTENDS Props, TLC, SequencesExt

Has(r, k)    == k \in DOMAIN r
Get(r, k, d) == IF k \in DOMAIN r THEN r[k] ELSE d
When(c, s)   == IF c THEN s ELSE <<>>
V(prop, n, code, det) == << <<prop, n, code, det>> >>
IsPanic(res) == Len(res) >= 2 /\ SubSeq(res, 1, 2) = "P:"

MaxViol == 40

---------------------------------------------------------------------------
\* ghost state of one peer
PeerInit(NP, N, spec) ==
  [ gf     |-> 0,                       \* ghost game frame
    gh     |-> HashInit,                \* ghost game hash (recomputed here)
    sim    |-> [f \in {} |-> <<>>],      \* frame -> inputs of the LAST simulation
    tl     |-> [f \in {0} |-> HashInit], \* frame -> state hash on the current timeline
    ver    |-> -1,                      \* frames <= ver are verified final
    ser    |-> HashInit,                \* state after frame ver on the serial replay of the final inputs (-1: unknown)
    maxSim |-> -1,                      \* highest frame ever simulated
    stat   |-> [h \in 0..NP-1 |-> <<FALSE, -1>>],
    conf   |-> -1,
    cur    |-> IF spec THEN -1 ELSE 0,
    run    |-> FALSE,
    fa     |-> 0,
    saved0 |-> FALSE,
    heard  |-> [q \in 0..N-1 |-> 1000000],  \* time of the last call that consumed a packet of q
    sil    |-> [q \in 0..N-1 |-> 0],        \* silence of q measured at p's last call
    drq    |-> [q \in 0..N-1 |-> FALSE],    \* a disconnect request of q has been consumed
    evs    |-> [q \in 0..N-1 |-> EvInit],
    lossy  |-> FALSE,                   \* event queue may have overflowed
    calls  |-> 0,                       \* ticks/polls since the last drain
    lastWaitCur |-> -1000,
    alive  |-> TRUE,
    issued |-> [q \in 0..N-1 |-> {}],     \* handshake nonces sent to q and not yet answered
    matched |-> [q \in 0..N-1 |-> 0],     \* replies of q that answered an issued nonce (round trips)
    lb |-> 0, rb |-> 0, haveStats |-> FALSE,   \* last network_stats: local / remote frames behind
    pend |-> [h \in 0..NP-1 |-> -1],    \* pending_local_inputs: the input registered for the next frame (-1 = none)
    lastStall |-> FALSE,                \* the previous advance_frame call did not advance (inputs stay registered)
    gcount |-> 0,                       \* simulations of the glitch frame so far
    glitchCall |-> -1,                  \* number of the call in which the game's glitch fired
    ncalls |-> 0,                       \* advance_frame calls so far
    mismatch |-> FALSE,                 \* MismatchedChecksum has been reported
    desyFirst |-> -1,                   \* first frame reported by a DesyncDetected event
    dropMark |-> -1,                    \* current frame when a remote was dropped (kill / disconnect_player); -1 = none
    lastRes |-> "",                     \* result of the peer's last advance_frame
    mark   |-> -1000000,                \* current frame when the fault phase ended (C05)
    nadv   |-> 0 ]

InitRun(c, viol, stats, run) ==
  LET N  == Len(c.peers)
      NP == c.players
      pc == [p \in 0..N-1 |-> c.peers[p+1]]
      isP2P(p) == pc[p].kind \in {"p2p", "synctest"}
      owns(p, h) == isP2P(p) /\ \E i \in 1..Len(pc[p].locals) : pc[p].locals[i] = h
      owner == [h \in 0..NP-1 |-> CHOOSE p \in 0..N-1 : owns(p, h)]
  IN [ N |-> N, NP |-> NP,
       W |-> Get(c, "window", 8),
       sparse |-> Get(c, "sparse", FALSE),
       predDefault |-> Get(c, "predictor", "repeat") = "default",
       desync |-> Get(c, "desync", 0),
       notify |-> Get(c, "notify", 500),
       timeout |-> Get(c, "timeout", 2000),
       maxBehind |-> Get(c, "max_behind", 10),
       catchup |-> Get(c, "catchup", 1),
       maxDelay |-> Get(c, "max_delay", 8),
       corrupt |-> \E p \in 0..N-1 : Has(pc[p], "corrupt_from"),
       corruptFrom |-> IF \E p \in 0..N-1 : Has(pc[p], "corrupt_from")
                       THEN pc[CHOOSE p \in 0..N-1 : Has(pc[p], "corrupt_from")].corrupt_from ELSE -1,
       transient |-> Get(c, "transient", FALSE),
       noInterrupt |-> Get(c, "no_interrupt", FALSE),
       forged |-> Get(c, "forged", FALSE) \/ Get(c, "waitapi", FALSE),   \* (a waiting call spans several clock readings)
       ts |-> Get(c, "timesync", [on |-> FALSE]),        \* C15 scenario: [on, warmup, lat, tick]
       cd |-> Get(c, "check_distance", 2),               \* SyncTestSession: check distance
       glitchFrame |-> Get(c, "glitch_frame", -1),
       glitchK |-> Get(c, "glitch_k", 0),       \* the game's k-th simulation of this frame deviates
       glitchTransient |-> Get(c, "glitch_transient", FALSE),  \* ... only in the checksum of the next save (not carried on)
       isSync |-> [p \in 0..N-1 |-> pc[p].kind = "synctest"],     \* forged packets are injected: silence clocks are not exact   \* both sides poll at least every keep-alive interval   \* every fault of this run ends before the timeout
       marked |-> FALSE, minProgress |-> 0,
       cf |-> [p \in 0..N-1 |-> Get(pc[p], "corrupt_from", 1000000000)],  \* game of p is corrupt from this frame
       owner |-> owner,
       isSpec |-> [p \in 0..N-1 |-> ~isP2P(p)],
       specs |-> [p \in 0..N-1 |-> SelectSeq([i \in 1..N |-> i - 1],
                                             LAMBDA q : ~isP2P(q) /\ Get(pc[q], "host", 0) = p)],
       host |-> [p \in 0..N-1 |-> Get(pc[p], "host", 0)],
       nlocals |-> [p \in 0..N-1 |-> IF isP2P(p) THEN Len(pc[p].locals) ELSE 0],
       truth |-> [h \in 0..NP-1 |-> TruthInit(Get(pc[owner[h]], "delay", 0))],
       \* (model runs may start after the handshake: every address has completed its life cycle's first phase)
       pr |-> [p \in 0..N-1 |->
                 IF Get(c, "presynced", FALSE)
                 THEN LET rem == IF ~isP2P(p) THEN {Get(pc[p], "host", 0)}
                                 ELSE ({owner[h] : h \in 0..NP-1} \ {p})
                                      \cup {q \in 0..N-1 : ~isP2P(q) /\ Get(pc[q], "host", 0) = p}
                      IN [PeerInit(NP, N, ~isP2P(p)) EXCEPT
                            !.evs = [q \in 0..N-1 |-> IF q \in rem THEN <<"run", 0, NumSyncRoundTrips>> ELSE EvInit],
                            !.matched = [q \in 0..N-1 |-> IF q \in rem THEN NumSyncRoundTrips ELSE 0],
                            !.run = TRUE]
                 ELSE PeerInit(NP, N, ~isP2P(p))],
       run |-> run,
       viol |-> viol,
       stats |-> stats ]

Stats0 == [ runs |-> 0, ticks |-> 0, advances |-> 0, resims |-> 0, loads |-> 0, maxDepth |-> 0,
            stalls |-> 0, predicted |-> 0, corrected |-> 0, specAdv |-> 0, events |-> 0,
            verified |-> 0, dropsTruth |-> 0, fills |-> 0, discInputs |-> 0, panics |-> 0,
            notSync |-> 0, delivered |-> 0, dropped |-> 0, dupd |-> 0, runsWithPlannedFault |-> 0, forgedPackets |-> 0,
            progressChecked |-> 0, waitLoops |-> 0, waitAdvanced |-> 0, waitArrivals |-> 0 ]

G0 == [ N |-> 0, viol |-> <<>>, stats |-> Stats0, run |-> 0 ]

AddViol(gg, vs) ==
  IF vs = <<>> \/ Len(gg.viol) >= MaxViol THEN gg
  ELSE [gg EXCEPT !.viol = @ \o [i \in 1..Len(vs) |-> <<gg.run>> \o vs[i]]]

Bump(gg, k, d) == [gg EXCEPT !.stats[k] = @ + d]

---------------------------------------------------------------------------
\* owner-side truth: submissions of a tick line that went through register_local_inputs
RECURSIVE ApplyIns(_, _, _, _)
ApplyIns(tr, ins, adds, u) ==
  IF ins = <<>> THEN tr
  ELSE LET h == ins[1][1]
           v == ins[1][2]
           ok == adds # <<>> /\ adds[1] = "ok" /\ h \in DOMAIN tr
       IN ApplyIns(IF ok THEN [tr EXCEPT ![h] = Submit(@, u, v)] ELSE tr,
                   Tail(ins), IF adds = <<>> THEN <<>> ELSE Tail(adds), u)

---------------------------------------------------------------------------
\* add_local_input calls of a line: the latest accepted value per handle stays pending until a frame advances
RECURSIVE PendAdd(_, _, _)
PendAdd(pend, ins, adds) ==
  IF ins = <<>> THEN pend
  ELSE LET h == ins[1][1]
           ok == adds # <<>> /\ adds[1] = "ok" /\ h \in DOMAIN pend
       IN PendAdd(IF ok THEN [pend EXCEPT ![h] = ins[1][2]] ELSE pend, Tail(ins),
                  IF adds = <<>> THEN <<>> ELSE Tail(adds))

\* Checks on one AdvanceFrame request of a P2P session.
\* gg: ghost, p: peer, pe: peer ghost (walk accumulator), f: frame, ins, r: line
RECURSIVE AdvH(_, _, _, _, _, _, _)
AdvH(gg, p, pe, f, ins, r, h) ==
  IF h >= gg.NP \/ h >= Len(ins) THEN <<>>
  ELSE
    LET v     == ins[h+1][1]
        s     == ins[h+1][2]
        t     == gg.truth[h]
        disc  == r.st[h+1][1]
        last  == r.st[h+1][2]
        local == gg.owner[h] = p
        me ==
          CASE s = Confirmed ->
                 When(~TruthHas(t, f), V("C03", r.n, "confirmed-never-submitted", <<p, h, f>>))
                 \o When(TruthHas(t, f) /\ v # TruthAt(t, f),
                         V("C03", r.n, "confirmed-wrong-value", <<p, h, f, v, TruthAt(t, f)>>))
                 \o When(f > last, V("C03", r.n, "confirmed-not-received", <<p, h, f, last>>))
            [] s = Predicted ->
                 When(local, V("C03", r.n, "local-input-predicted", <<p, h, f>>))
                 \o LET exp == IF last = NullFrame \/ f = 0 THEN Default
                               ELSE IF TruthHas(t, last)
                                    THEN Predict(gg.predDefault, TruthAt(t, last)) ELSE v
                    IN When(~local /\ f > last /\ v # exp,
                            V("C03", r.n, "prediction-not-predictor-of-newest", <<p, h, f, v, exp, last>>))
            [] s = Disconnected ->
                 When(v # Default \/ ~disc \/ last >= f,
                      V("C03", r.n, "disconnected-status-untruthful", <<p, h, f, v, disc, last>>))
            [] OTHER -> V("C03", r.n, "bad-status", <<p, h, s>>)
        \* confirmed inputs are final (values; a later Disconnected cut-off is C10's business)
        fin == When(f <= pe.ver /\ f \in DOMAIN pe.sim /\ s # Disconnected
                      /\ h < Len(pe.sim[f]) /\ pe.sim[f][h+1][2] # Disconnected
                      /\ pe.sim[f][h+1][1] # v,
                    V("C03", r.n, "confirmed-frame-resimulated-with-other-input",
                      <<p, h, f, pe.sim[f][h+1][1], v>>))
        \* Disconnected is final: a frame once simulated with the player flagged Disconnected lies after its
        \* cut-off and is never given that player's input again
        back == When(f \in DOMAIN pe.sim /\ h < Len(pe.sim[f]) /\ pe.sim[f][h+1][2] = Disconnected
                       /\ s # Disconnected,
                     V("C03", r.n, "disconnected-frame-resimulated-as-connected", <<p, h, f, v, s>>))
    IN me \o fin \o back \o AdvH(gg, p, pe, f, ins, r, h + 1)

AdvViol(gg, p, pe, f, ins, r) ==
  LET first == f > pe.maxSim
  IN When(Len(ins) # gg.NP, V("C02", r.n, "advance-arity", <<p, f, Len(ins)>>))
     \o AdvH(gg, p, pe, f, ins, r, 0)
     \o When(first /\ f - r.conf > gg.W,
             V("C04", r.n, "new-frame-beyond-prediction-window", <<p, f, r.conf, gg.W>>))
     \o When(gg.W = 0 /\ \E i \in 1..Len(ins) : ins[i][2] = Predicted,
             V("C04", r.n, "lockstep-predicted-input", <<p, f>>))
     \o When(f = 0 /\ first /\ gg.W > 0 /\ ~pe.saved0 /\ (~gg.isSync[p] \/ gg.cd > 0),   \* a sync test with check distance 0 never rolls back
             V("C02", r.n, "frame0-simulated-before-saved", <<p>>))

\* one request of a P2P request list; acc = [pe, vs, nA, nL, depth]
ReqStep(gg, p, r, acc, rq) ==
    LET pe == acc.pe
        k  == rq[1]
    IN
    CASE k = "S" ->
           LET f == rq[2]
           IN [acc EXCEPT
                 !.vs = @ \o When(f # pe.gf, V("C02", r.n, "save-names-wrong-frame", <<p, f, pe.gf>>))
                          \o When(gg.W = 0, V("C04", r.n, "lockstep-save", <<p, f>>))
                          \o When(rq[3] # pe.gf \/ rq[4] # pe.gh,
                                  V("TOOL", r.n, "ghost-game-diverged-at-save", <<p, rq[3], pe.gf, rq[4], pe.gh>>)),
                 !.pe.saved0 = pe.saved0 \/ f = 0]
      [] k = "L" ->
           LET f == rq[2]  lf == rq[3]  lh == rq[4]
           IN [acc EXCEPT
                 !.vs = @ \o When(~(f < pe.gf), V("C02", r.n, "load-not-earlier", <<p, f, pe.gf>>))
                          \o When(lf # f, V("C02", r.n, "cell-holds-other-frame", <<p, f, lf>>))
                          \o When(lf = f /\ f \in DOMAIN pe.tl /\ lh # pe.tl[f],
                                  V("C02", r.n, "cell-holds-stale-timeline", <<p, f, lh, pe.tl[f]>>))
                          \o When(lf = f /\ f \notin DOMAIN pe.tl,
                                  V("C02", r.n, "load-of-unknown-frame", <<p, f>>))
                          \o When(pe.gf - f > gg.W, V("C04", r.n, "load-beyond-prediction-window", <<p, f, pe.gf, gg.W>>))
                          \o When(gg.W = 0, V("C04", r.n, "lockstep-load", <<p, f>>)),
                 !.pe.gf = IF lf >= 0 THEN lf ELSE f,
                 !.pe.gh = lh,
                 !.nL = @ + 1,
                 !.depth = Max2(@, pe.gf - f)]
      [] k = "A" ->
           LET f   == pe.gf
               ins == rq[2]
               nh0 == Chain(pe.gh, ins)
               nh1 == IF f >= gg.cf[p] THEN (nh0 + 17) % HashMod ELSE nh0   \* the harness' deliberate divergence
               gl  == f = gg.glitchFrame /\ pe.gcount + 1 = gg.glitchK       \* ... and deliberate glitch
               nh  == IF gl /\ ~gg.glitchTransient THEN (nh1 + 1) % HashMod ELSE nh1
               changed == f \in DOMAIN pe.sim /\ \E i \in 1..Min2(Len(ins), Len(pe.sim[f])) : pe.sim[f][i][1] # ins[i][1]
           IN [acc EXCEPT
                 !.vs = @ \o AdvViol(gg, p, pe, f, ins, r),
                 !.pe.sim = [x \in (DOMAIN pe.sim) \cup {f} |-> IF x = f THEN ins ELSE pe.sim[x]],
                 !.pe.tl  = [x \in (DOMAIN pe.tl) \cup {f + 1} |-> IF x = f + 1 THEN nh ELSE pe.tl[x]],
                 !.pe.gf = f + 1,
                 !.pe.gh = nh,
                 !.pe.gcount = IF f = gg.glitchFrame THEN @ + 1 ELSE @,
                 !.pe.maxSim = Max2(pe.maxSim, f),
                 !.nA = @ + 1,
                 !.nNew = @ + (IF f > pe.maxSim THEN 1 ELSE 0),
                 !.nPred = @ + (IF \E i \in 1..Len(ins) : ins[i][2] = Predicted THEN 1 ELSE 0),
                 !.nDisc = @ + (IF \E i \in 1..Len(ins) : ins[i][2] = Disconnected THEN 1 ELSE 0),
                 !.nCorr = @ + (IF changed THEN 1 ELSE 0)]
      [] OTHER -> [acc EXCEPT !.vs = @ \o V("TOOL", r.n, "unknown-request", <<p>>)]

\* C01: frames whose inputs had all arrived before this call are final after it
RECURSIVE FinalH(_, _, _, _, _, _)
FinalH(gg, p, pe, f, r, h) ==
  IF h >= gg.NP THEN <<>>
  ELSE
    LET t    == gg.truth[h]
        disc == r.st[h+1][1]
        last == r.st[h+1][2]
        have == f \in DOMAIN pe.sim /\ h < Len(pe.sim[f])
        v    == pe.sim[f][h+1][1]
        s    == pe.sim[f][h+1][2]
        me ==
          IF ~have THEN V("C01", r.n, "confirmed-frame-never-simulated", <<p, f>>)
          ELSE IF disc /\ last < f
               THEN When(s # Disconnected \/ v # Default,
                         V("C07", r.n, "frame-after-cutoff-not-disconnected-default", <<p, h, f, v, s, last>>))
               ELSE When(TruthHas(t, f) /\ v # TruthAt(t, f),
                         V("C01", r.n, "final-simulation-used-wrong-input", <<p, h, f, v, TruthAt(t, f), s>>))
                    \o When(~TruthHas(t, f) /\ t.lastAdded < f,
                            V("C01", r.n, "confirmed-frame-without-submitted-input", <<p, h, f>>))
                    \o When(s = Disconnected,
                            V("C07", r.n, "frame-at-or-before-cutoff-disconnected", <<p, h, f, last>>))
    IN me \o FinalH(gg, p, pe, f, r, h + 1)

\* C01, second half: the serial replay of the (verified) final inputs of frames f..hi, started from state h
\* (the harness' deliberate divergence from frame cf on is part of its game, so it is part of the replay)
RECURSIVE SerialFold(_, _, _, _, _, _)
SerialFold(gg, p, pe, f, hi, h) ==
  IF h < 0 \/ f > hi THEN h
  ELSE IF f \notin DOMAIN pe.sim THEN -1
  ELSE LET n0 == Chain(h, pe.sim[f])
           n1 == IF f >= gg.cf[p] THEN (n0 + 17) % HashMod ELSE n0
       IN SerialFold(gg, p, pe, f + 1, hi, n1)

RECURSIVE FinalF(_, _, _, _, _, _)
FinalF(gg, p, pe, f, hi, r) ==
  IF f > hi THEN <<>> ELSE FinalH(gg, p, pe, f, r, 0) \o FinalF(gg, p, pe, f + 1, hi, r)

\* silence bookkeeping for a call (tick/poll) of peer p at time t
HeardUpdate(pe, r, N) ==
  LET from(q) == \E i \in 1..Len(r.rxf) : r.rxf[i] = q
      dr(q)   == Has(r, "rxi") /\ \E i \in 1..Len(r.rxi) : r.rxi[i][1] = q /\ r.rxi[i][4]
      srx == Get(r, "srx", <<>>)
      stx == Get(r, "stx", <<>>)
      \* replies consumed in this call answer nonces issued in earlier calls (each at most once)
      RECURSIVE Match(_, _, _)
      Match(iss, cnt, i) ==
        IF i > Len(srx) THEN <<iss, cnt>>
        ELSE LET q == srx[i][1]  n == srx[i][2]
             IN IF q \in 0..N-1 /\ srx[i][3] = 1 /\ n \in iss[q]
                THEN Match([iss EXCEPT ![q] = @ \ {n}], [cnt EXCEPT ![q] = @ + 1], i + 1)
                ELSE Match(iss, cnt, i + 1)
      mm == Match(pe.issued, pe.matched, 1)
      iss2 == [q \in 0..N-1 |-> mm[1][q] \cup {stx[i][2] : i \in {j \in 1..Len(stx) : stx[j][1] = q}}]
  IN [pe EXCEPT !.issued = iss2, !.matched = mm[2],
                !.sil   = [q \in 0..N-1 |-> IF from(q) THEN 0 ELSE r.t - pe.heard[q]],
                !.heard = [q \in 0..N-1 |-> IF from(q) THEN r.t ELSE pe.heard[q]],
                !.drq   = [q \in 0..N-1 |-> pe.drq[q] \/ dr(q)],
                !.calls = Min2(@ + 1, 2)]

\* the connection status a session reports: a disconnected player's cut-off never rises again (inputs that
\* arrive after the drop are not accepted) and the flag is never cleared
StatV(gg, p, pe, r) ==
  IF ~Has(r, "st") \/ gg.isSpec[p] THEN <<>>
  ELSE LET RECURSIVE F(_)
           F(h) == IF h >= gg.NP THEN <<>>
                   ELSE When(pe.stat[h][1] /\ (r.st[h+1][2] > pe.stat[h][2] \/ ~r.st[h+1][1]),
                             V("C07", r.n, "cutoff-changed-after-the-drop", <<p, h, pe.stat[h], r.st[h+1]>>)
                             \o V("C03", r.n, "input-accepted-from-disconnected-player", <<p, h, pe.stat[h], r.st[h+1]>>))
                        \o F(h + 1)
       IN F(0)

\* buffer bounds (C18) and stranded outgoing inputs (C11) on a P2P line
RECURSIVE EpViol(_, _, _, _, _)
EpViol(gg, p, r, eps, i) ==
  IF i > Len(eps) THEN <<>>
  ELSE LET e == eps[i]   \* [addr, pending, recv, pending_checksums, send_queue, event_queue, state]
           q == e[1]
           spec == q \in 0..gg.N-1 /\ gg.isSpec[q]
           bound == IF spec THEN MaxPendingOutput + gg.W + 2
                    ELSE Min2(MaxPendingOutput + 1, 2 * gg.W + 2 * gg.maxDelay + 8)
       IN When(e[2] > bound, V("C18", r.n, "pending-output-unbounded", <<p, q, e[2], bound>>))
          \o When(e[3] > 2 * gg.W + 2, V("C18", r.n, "recv-inputs-unbounded", <<p, q, e[3]>>))
          \o When(e[4] > MaxChecksumHistory + 1, V("C18", r.n, "pending-checksums-unbounded", <<p, q, e[4]>>))
          \o When(r.a \in {"tick", "poll"} /\ e[5] # 0,      \* poll_remote_clients hands everything to the socket
                  V("C18", r.n, "send-queue-not-flushed", <<p, q, e[5]>>))
          \o EpViol(gg, p, r, eps, i + 1)

BufViol(gg, p, r) ==
  IF ~Has(r, "buf") THEN <<>>
  ELSE When(r.evq > MaxEventQueue, V("C18", r.n, "event-queue-over-100", <<p, r.evq>>))
       \o When(r.buf.out > gg.maxDelay + 2, V("C18", r.n, "outgoing-inputs-unbounded", <<p, r.buf.out>>))
       \o When(r.buf.pl > gg.nlocals[p], V("C18", r.n, "pending-local-unbounded", <<p, r.buf.pl>>))
       \o When(r.buf.ck > MaxChecksumHistory + 1, V("C18", r.n, "checksum-history-unbounded", <<p, r.buf.ck>>))
       \o EpViol(gg, p, r, r.buf.ep, 1)
       \o When(\E i \in 1..Len(r.og) : r.og[i] <= r.lso,
               V("C11", r.n, "outgoing-input-stranded", <<p, r.og, r.lso>>))

---------------------------------------------------------------------------
\* a `tick` line of a P2P session
TickP2P(gg, r) ==
  LET p   == r.p
      pe0 == gg.pr[p]
      ok  == r.r = "ok"
      \* submissions count only when advance_frame got past its guards
      \* what is registered: every local player's pending input (it may stem from an earlier call that
      \* failed with NotSynchronized / InvalidRequest or that stalled)
      locals == {h \in 0..gg.NP-1 : gg.owner[h] = p}
      pend1 == PendAdd(pe0.pend, Get(r, "in", <<>>), Get(r, "add", <<>>))
      have  == \A h \in locals : pend1[h] >= 0
      regIns == LET hs == SelectSeq([i \in 1..gg.NP |-> i - 1], LAMBDA h : h \in locals /\ pend1[h] >= 0)
                IN [i \in 1..Len(hs) |-> <<hs[i], pend1[hs[i]]>>]
      g1  == IF ok THEN [gg EXCEPT !.truth = ApplyIns(@, regIns, [i \in 1..Len(regIns) |-> "ok"], r.cur0)]
             ELSE gg
      acc0 == [pe |-> HeardUpdate(pe0, r, gg.N), vs |-> <<>>, nA |-> 0, nL |-> 0, depth |-> 0,
               nNew |-> 0, nPred |-> 0, nDisc |-> 0, nCorr |-> 0]
      acc  == IF ok THEN FoldLeft(LAMBDA a, rq : ReqStep(g1, p, r, a, rq), acc0, r.q) ELSE acc0
      pe1  == acc.pe
      \* C15: with a steady lead the estimate equals the real lead (two player sessions)
      tsOn == gg.ts.on /\ gg.N = 2 /\ ok /\ r.run /\ r.t >= 1000000 + gg.ts.warmup
      other == 1 - p
      lead == r.cur - gg.pr[other].cur
      \* C15: with no connected remote player left there is nobody to be ahead of (frames_ahead is refreshed at the
      \* end of every successful call, after the connection statuses)
      remH == {h \in 0..gg.NP-1 : gg.owner[h] # p}
      noRemV == When(ok /\ r.run /\ ~gg.isSync[p] /\ Has(r, "fa") /\ remH # {} /\ (\A h \in remH : r.st[h+1][1]) /\ r.fa # 0,
                     V("C15", r.n, "frames-ahead-without-connected-remote", <<p, r.fa>>))
      tsV == When(tsOn /\ (r.fa - lead > 2 \/ lead - r.fa > 2),
                  V("C15", r.n, "frames-ahead-differs-from-the-real-lead", <<p, r.fa, lead>>))
             \o When(tsOn /\ (r.fa + gg.pr[other].fa > 2 \/ r.fa + gg.pr[other].fa < -2),
                     V("C15", r.n, "frames-ahead-of-the-two-peers-do-not-cancel", <<p, r.fa, gg.pr[other].fa>>))
      expV == When(ok /\ ~have,
                   V("C16", r.n, "advanced-although-a-local-input-is-missing", <<p, pend1>>))
              \o When(r.r = "E:InvalidRequest" /\ have,
                      V("C16", r.n, "invalid-request-although-all-local-inputs-are-registered", <<p, pend1>>))
              \o When(r.r = "E:InvalidRequest" /\ ~pe0.run /\ ~r.run /\ ~gg.isSync[p],
                      V("C16", r.n, "missing-input-reported-before-not-synchronized", <<p>>))
      syncV == IF ~gg.isSync[p] THEN <<>>
               ELSE IF r.r = "E:MismatchedChecksum" THEN
                      When(gg.glitchFrame = -1,
                           V("C13", r.n, "mismatch-reported-for-deterministic-game", <<p, Get(r, "mm", <<>>)>>))
                      \o When(gg.glitchFrame # -1 /\ pe0.glitchCall = -1,
                              V("C13", r.n, "mismatch-reported-before-the-glitch", <<p, Get(r, "mm", <<>>)>>))
                      \o When(gg.glitchFrame # -1 /\ Has(r, "mm") /\ r.mm # <<>> /\ r.mm[1] # gg.glitchFrame + 1,
                              V("C13", r.n, "mismatch-does-not-name-the-first-affected-frame",
                                <<p, r.mm, gg.glitchFrame + 1>>))
                      \o When(gg.glitchFrame # -1 /\ pe0.glitchCall # -1 /\ pe0.ncalls + 1 - pe0.glitchCall > gg.cd + 2,
                              V("C13", r.n, "mismatch-reported-late", <<p, pe0.glitchCall, pe0.ncalls + 1, gg.cd>>))
               ELSE When(gg.cd >= 2 /\ pe0.glitchCall # -1 /\ ~pe0.mismatch
                           /\ pe0.ncalls + 1 - pe0.glitchCall > gg.cd + 2,
                         V("C13", r.n, "nondeterminism-not-reported",
                           <<p, pe0.glitchCall, pe0.ncalls + 1, gg.cd,
                             \* history class: the game deviated on the first (live) simulation only
                             IF gg.glitchK = 1 THEN "cls:first-simulation-only" ELSE "cls:resimulation">>))
      endV == IF ~ok THEN
                 When(r.r = "E:NotSynchronized" /\ pe0.run,
                      V("C12", r.n, "not-synchronized-while-running", <<p>>))
                 \o When(r.r \notin {"E:NotSynchronized", "E:InvalidRequest", "E:PredictionThreshold"}
                           /\ ~(gg.isSync[p] /\ r.r = "E:MismatchedChecksum"),
                         V("PANIC", r.n, r.r, <<p>>))
              ELSE
                 When(~pe0.run /\ ~r.run, V("C12", r.n, "advanced-while-not-running", <<p>>))
                 \o When(pe1.gf # r.cur, V("C02", r.n, "game-frame-differs-from-current-frame", <<p, pe1.gf, r.cur>>))
                 \o When(r.cur - r.cur0 \notin {0, 1}, V("C02", r.n, "current-frame-jump", <<p, r.cur0, r.cur>>))
                 \o When(acc.nNew > 1, V("C02", r.n, "more-than-one-new-frame", <<p, acc.nNew>>))
                 \o When(pe1.gf # r.g[1] \/ pe1.gh # r.g[2],
                         V("TOOL", r.n, "ghost-game-diverged", <<p, pe1.gf, r.g[1], pe1.gh, r.g[2]>>))
                 \o When(gg.W = 0 /\ acc.nA = 0 /\ r.cur # r.cur0,
                         V("C04", r.n, "lockstep-stall-moved-frame", <<p, r.cur0, r.cur>>))
      \* C01 finality: frames confirmed before this call
      hi   == Min2(pe0.conf, r.cur - 1)
      finV == IF ok /\ r.run THEN FinalF(g1, p, pe1, pe1.ver + 1, hi, r) ELSE <<>>
      ver1 == IF ok /\ r.run THEN Max2(pe1.ver, hi) ELSE pe1.ver
      \* ... and the game state after the newest final frame equals the serial replay of the final inputs
      ser1 == IF ok /\ r.run /\ hi > pe1.ver /\ ~gg.isSync[p] THEN SerialFold(g1, p, pe1, pe1.ver + 1, hi, pe1.ser)
              ELSE pe1.ser
      serV == When(ok /\ r.run /\ hi > pe1.ver /\ ~gg.isSync[p] /\ ser1 >= 0 /\ (hi + 1) \in DOMAIN pe1.tl
                     /\ pe1.tl[hi + 1] # ser1,
                   V("C01", r.n, "state-differs-from-serial-replay", <<p, hi + 1, pe1.tl[hi + 1], ser1>>))
      lo   == Min2(ver1 + 1, r.cur - gg.W - 2) - 1
      pe2  == [pe1 EXCEPT !.pend = IF ok /\ acc.nNew >= 1 THEN [h \in 0..gg.NP-1 |-> -1] ELSE pend1,
                          !.ncalls = IF gg.isSync[p] THEN @ + 1 ELSE @,   \* (only sync tests need it; unbounded otherwise)
                          !.lastStall = ok /\ acc.nNew = 0,
                          !.glitchCall = IF @ = -1 /\ Get(r, "glitched", FALSE) THEN pe0.ncalls + 1 ELSE @,
                          !.mismatch = @ \/ r.r = "E:MismatchedChecksum",
                          !.ver = ver1,
                          !.ser = ser1,
                          !.conf = Max2(@, r.conf),
                          !.cur = r.cur, !.run = r.run, !.fa = r.fa,
                          !.stat = [h \in 0..gg.NP-1 |-> r.st[h+1]],
                          !.lossy = @ \/ r.evq >= MaxEventQueue,
                          !.sim = [x \in {y \in DOMAIN pe1.sim : y >= lo} |-> pe1.sim[x]],
                          !.tl  = [x \in {y \in DOMAIN pe1.tl : y >= lo} |-> pe1.tl[x]]]
      confV == When(r.run /\ r.conf < pe0.conf, V("C03", r.n, "confirmed-frame-decreased", <<p, pe0.conf, r.conf>>))
      g2 == [g1 EXCEPT !.pr[p] = pe2]
      \* forget truth nobody needs any more
      need == [q \in 0..gg.N-1 |->
                 IF ~g2.pr[q].alive THEN 1000000000
                 ELSE IF gg.isSpec[q] THEN g2.pr[q].cur
                 ELSE Min2(g2.pr[q].ver, g2.pr[q].cur - gg.W - 2)]   \* sparse saving re-simulates below ver
      tlo == (CHOOSE m \in {need[q] : q \in 0..gg.N-1} : \A q \in 0..gg.N-1 : m <= need[q]) - 1
      g3 == [g2 EXCEPT !.truth = [h \in 0..gg.NP-1 |-> TruthTrim(g2.truth[h], tlo)]]
      st1 == [g3.stats EXCEPT !.ticks = @ + 1, !.advances = @ + acc.nNew,
                              !.resims = @ + (acc.nA - acc.nNew), !.loads = @ + acc.nL,
                              !.maxDepth = Max2(@, acc.depth),
                              !.stalls = @ + (IF ok /\ acc.nNew = 0 THEN 1 ELSE 0),
                              !.predicted = @ + acc.nPred, !.corrected = @ + acc.nCorr,
                              !.discInputs = @ + acc.nDisc,
                              !.verified = @ + (ver1 - pe1.ver),
                              !.notSync = @ + (IF r.r = "E:NotSynchronized" THEN 1 ELSE 0),
                              \* advance_frame_with_wait_timeout: calls that entered the wait loop / that
                              \* advanced after waiting / during which packets arrived
                              !.waitLoops = @ + (IF Has(r, "wait") /\ Has(r, "t1") /\ r.t1 > r.t THEN 1 ELSE 0),
                              !.waitAdvanced = @ + (IF Has(r, "wait") /\ Has(r, "t1") /\ r.t1 > r.t /\ acc.nNew > 0
                                                    THEN 1 ELSE 0),
                              !.waitArrivals = @ + (IF Has(r, "arr") THEN Len(r.arr) ELSE 0)]
  IN AddViol([g3 EXCEPT !.stats = st1],
             acc.vs \o endV \o finV \o serV \o confV \o syncV \o expV \o tsV \o noRemV \o BufViol(gg, p, r) \o StatV(gg, p, pe0, r))

---------------------------------------------------------------------------
\* a `tick` line of a spectator session (C06)
RECURSIVE SpecH(_, _, _, _, _, _)
SpecH(gg, p, f, ins, r, h) ==
  IF h >= gg.NP \/ h >= Len(ins) THEN <<>>
  ELSE
    LET v  == ins[h+1][1]
        s  == ins[h+1][2]
        t  == gg.truth[h]
        hs == gg.pr[gg.host[p]].stat[h]
        expDisc == hs[1] /\ hs[2] < f
        me == CASE s = Confirmed ->
                     When(expDisc, V("C06", r.n, "host-disconnected-player-shown-connected", <<p, h, f>>))
                     \o When(~expDisc /\ TruthHas(t, f) /\ v # TruthAt(t, f),
                             V("C06", r.n, "spectator-input-differs-from-host-timeline", <<p, h, f, v, TruthAt(t, f)>>))
                     \o When(~expDisc /\ ~TruthHas(t, f),
                             V("C06", r.n, "spectator-input-never-submitted", <<p, h, f>>))
                [] s = Disconnected ->
                     When(~expDisc \/ v # Default,
                          V("C06", r.n, "spectator-disconnected-but-host-connected", <<p, h, f, v>>))
                [] OTHER -> V("C06", r.n, "spectator-predicted-input", <<p, h, f>>)
    IN me \o SpecH(gg, p, f, ins, r, h + 1)

SpecReq(gg, p, r, acc, rq) ==
    IF rq[1] # "A" THEN [acc EXCEPT !.vs = @ \o V("C02", r.n, "spectator-got-save-or-load", <<p>>)]
    ELSE LET f == acc.pe.gf
             ins == rq[2]
             hostConf == gg.pr[gg.host[p]].conf
         IN [acc EXCEPT
               !.vs = @ \o SpecH(gg, p, f, ins, r, 0)
                        \o When(Len(ins) # gg.NP, V("C02", r.n, "advance-arity", <<p, f>>))
                        \o When(f > hostConf, V("C06", r.n, "spectator-beyond-host-confirmed", <<p, f, hostConf>>)),
               !.pe.gf = f + 1,
               !.pe.gh = Chain(acc.pe.gh, ins),
               !.nA = @ + 1]

TickSpec(gg, r) ==
  LET p   == r.p
      pe0 == gg.pr[p]
      ok  == r.r = "ok"
      acc0 == [pe |-> HeardUpdate(pe0, r, gg.N), vs |-> <<>>, nA |-> 0]
      acc == IF ok THEN FoldLeft(LAMBDA a, rq : SpecReq(gg, p, r, a, rq), acc0, r.q) ELSE acc0
      pe1 == acc.pe
      behind == r.lrf - r.cur0
      allowed == IF behind > gg.maxBehind THEN Min2(gg.catchup, behind) ELSE 1
      endV ==
        IF ok THEN
          When(pe1.gf # r.cur + 1, V("C02", r.n, "spectator-frame-gap", <<p, pe1.gf, r.cur>>))
          \o When(acc.nA > allowed, V("C06", r.n, "spectator-advanced-too-many-frames", <<p, acc.nA, allowed, behind>>))
          \o When(pe1.gh # r.g[2], V("TOOL", r.n, "ghost-game-diverged", <<p>>))
          \o When(behind >= SpectatorBuffer + 1, V("C06", r.n, "overwritten-frame-delivered", <<p, behind>>))
        ELSE
          When(r.r = "E:SpectatorTooFarBehind" /\ behind < SpectatorBuffer + 1,
               V("C06", r.n, "too-far-behind-without-overwrite", <<p, behind>>))
          \o When(r.r = "E:PredictionThreshold" /\ behind >= 1 /\ behind < SpectatorBuffer + 1,
                  V("C06", r.n, "spectator-stalled-with-buffered-frames", <<p, behind>>))
          \o When(r.r = "E:NotSynchronized" /\ pe0.run, V("C12", r.n, "not-synchronized-while-running", <<p>>))
          \o When(r.r \notin {"E:NotSynchronized", "E:PredictionThreshold", "E:SpectatorTooFarBehind"},
                  V("PANIC", r.n, r.r, <<p>>))
      pe2 == [pe1 EXCEPT !.cur = r.cur, !.run = r.run, !.lastRes = r.r,
                         !.lossy = @ \/ r.evq >= MaxEventQueue,
                         !.stat = [h \in 0..gg.NP-1 |-> r.st[h+1]]]
  IN AddViol([gg EXCEPT !.pr[p] = pe2, !.stats.specAdv = @ + acc.nA, !.stats.ticks = @ + 1],
             acc.vs \o endV \o When(r.evq > MaxEventQueue, V("C18", r.n, "event-queue-over-100", <<p, r.evq>>))
             \* frames_behind_host() asserts last_recv_frame >= current_frame (harness logs -1000 if it panicked)
             \o When(Has(r, "fbh") /\ r.fbh < 0, V("PANIC", r.n, "P:frames_behind_host", <<p, r.fbh>>)))

---------------------------------------------------------------------------
\* an `ev` line: the user drains the event queue
EvFold(gg, p, r, acc, e) ==
    LET k == e[1]
        pe == acc.pe
        exact == pe.calls = 1 /\ ~pe.lossy /\ ~gg.forged    \* drained right after the generating call
    IN
    IF k \in {"Sing", "Sed", "Disc", "Intr", "Resu"} THEN
      LET q  == e[2]
          s0 == pe.evs[q]
          s1 == EvStep(s0, k, IF k = "Sing" THEN e[3] ELSE 0, IF k = "Sing" THEN e[4] ELSE 0)
          ordV == When(~pe.lossy /\ s1[1] = "bad",
                       V("C12", r.n, "event-out-of-order", <<p, q, k, s0>>))
          timeV ==
            When(exact /\ k = "Intr" /\ pe.sil[q] <= gg.notify,
                 V("C07", r.n, "interrupted-before-notify-delay", <<p, q, pe.sil[q]>>))
            \o When(exact /\ k = "Disc" /\ pe.sil[q] <= gg.timeout /\ ~pe.drq[q]
                      /\ ~(gg.isSpec[q] /\ gg.host[q] = p),
                    V("C07", r.n, "disconnected-before-timeout", <<p, q, pe.sil[q]>>))
            \o When(exact /\ k = "Intr" /\ e[3] # Max2(gg.timeout - gg.notify, 0),
                    V("C12", r.n, "interrupted-wrong-remaining-time", <<p, q, e[3]>>))
          trV == When(gg.transient /\ k = "Disc",
                      V("C05", r.n, "disconnected-although-every-fault-was-transient", <<p, q>>))
          hsV == When(~pe.lossy /\ k = "Sed" /\ pe.matched[q] < EvTotal(s0),
                      V("C12", r.n, "synchronized-without-full-handshake", <<p, q, pe.matched[q]>>))
                 \o When(~pe.lossy /\ k = "Sing" /\ pe.matched[q] < e[4],
                         V("C12", r.n, "synchronizing-count-exceeds-matched-round-trips", <<p, q, e[4], pe.matched[q]>>))
                 \o When(k = "Intr" /\ gg.noInterrupt,
                         V("C12", r.n, "interrupted-although-both-sides-keep-polling", <<p, q, pe.sil[q]>>))
      IN [acc EXCEPT !.pe.evs[q] = IF s1[1] = "bad" THEN s0 ELSE s1, !.vs = @ \o ordV \o timeV \o trV \o hsV]
    ELSE IF k = "Wait" THEN
      [acc EXCEPT
         !.vs = @ \o When(e[2] < 3, V("C15", r.n, "wait-recommendation-below-3", <<p, e[2]>>))
                  \o When(exact /\ e[2] # pe.fa, V("C15", r.n, "wait-skip-differs-from-frames-ahead", <<p, e[2], pe.fa>>))
                  \o When(exact /\ pe.cur - pe.lastWaitCur < 60,
                          V("C15", r.n, "wait-recommendations-too-close", <<p, pe.cur, pe.lastWaitCur>>)),
         !.pe.lastWaitCur = IF exact THEN pe.cur ELSE @]
    ELSE IF k = "Desy" THEN
      \* <<"Desy", addr, frame, local, remote, really-saved-local, really-saved-remote>>
      [acc EXCEPT
         !.vs = @ \o When(~gg.corrupt, V("C09", r.n, "desync-reported-for-deterministic-game", <<p, e[2], e[3]>>))
                  \o When(gg.corrupt /\ e[3] <= gg.corruptFrom,
                          V("C09", r.n, "desync-reported-before-the-divergence", <<p, e[3], gg.corruptFrom>>))
                  \o When(gg.corrupt /\ Len(e) >= 7 /\ ((e[6] >= 0 /\ e[4] # e[6]) \/ (e[7] >= 0 /\ e[5] # e[7])),
                          V("C09", r.n, "desync-event-carries-wrong-checksums", <<p, e[3], e[4], e[6], e[5], e[7]>>)),
         !.pe.desyFirst = IF pe.desyFirst = -1 THEN e[3] ELSE Min2(pe.desyFirst, e[3])]
    ELSE acc

\* after a drain directly following a call: interruptions / disconnects that were due
RECURSIVE DueV(_, _, _, _)
DueV(gg, p, pe, q) ==
  IF q >= gg.N THEN <<>>
  ELSE LET \* a player that was dropped because another peer reported it (gossip) gets no event
           gone == \E h \in 0..gg.NP-1 : gg.owner[h] = q /\ pe.stat[h][1]
           ph == IF gone THEN "disc" ELSE pe.evs[q][1]
       IN When(ph = "run" /\ pe.sil[q] > gg.notify /\ gg.notify < gg.timeout,
               V("C07", 0, "interruption-not-reported", <<p, q, pe.sil[q]>>))
          \o When(ph \in {"run", "intr"} /\ pe.sil[q] > gg.timeout,
                  V("C07", 0, "timeout-disconnect-not-reported", <<p, q, pe.sil[q]>>))
          \o DueV(gg, p, pe, q + 1)

EvLine(gg, r) ==
  LET p   == r.p
      pe0 == gg.pr[p]
      acc == FoldLeft(LAMBDA a, e : EvFold(gg, p, r, a, e), [pe |-> pe0, vs |-> <<>>], r.ev)
      exact == pe0.calls = 1 /\ ~pe0.lossy /\ ~gg.forged
      due == IF exact THEN DueV(gg, p, acc.pe, 0) ELSE <<>>
      due2 == [i \in 1..Len(due) |-> <<due[i][1], r.n, due[i][3], due[i][4]>>]
      remotes == IF gg.isSpec[p] THEN {gg.host[p]}
                 ELSE ({gg.owner[h] : h \in 0..gg.NP-1} \ {p}) \cup {gg.specs[p][i] : i \in 1..Len(gg.specs[p])}
      allSynced == \A q \in remotes : acc.pe.evs[q][1] # "sync"
      runV == When(exact /\ acc.pe.run # allSynced,
                   V("C12", r.n, "running-state-differs-from-handshake-completion", <<p, acc.pe.run, allSynced>>))
              \o When(exact /\ \E q \in remotes : acc.pe.evs[q][1] = "sync" /\ acc.pe.evs[q][3] > 0 /\ acc.pe.matched[q] >= acc.pe.evs[q][3],
                      V("C12", r.n, "full-handshake-but-not-synchronized", <<p>>))
  IN AddViol([gg EXCEPT !.pr[p] = [acc.pe EXCEPT !.calls = 0], !.stats.events = @ + Len(r.ev)],
             acc.vs \o due2 \o runV)

---------------------------------------------------------------------------
PollLine(gg, r) ==
  LET p == r.p
      pe0 == gg.pr[p]
      pe1 == [HeardUpdate(pe0, r, gg.N) EXCEPT
                !.run = Get(r, "run", @),
                !.lossy = @ \/ Get(r, "evq", 0) >= MaxEventQueue,
                !.stat = IF Has(r, "st") THEN [h \in 0..gg.NP-1 |-> r.st[h+1]] ELSE @]
  IN AddViol([gg EXCEPT !.pr[p] = pe1],
             When(r.r # "ok", V("PANIC", r.n, r.r, <<p>>))
             \o (IF gg.isSpec[p] THEN <<>> ELSE BufViol(gg, p, r) \o StatV(gg, p, pe0, r)))

OtherPeerLine(gg, r) ==
  \* disc / dly / stats: results are judged by the property-specific monitors
  LET p == r.p
      isPanic == IsPanic(r.r)
      g1 == IF r.a = "dly" /\ r.r = "ok" /\ r.h \in DOMAIN gg.truth
            THEN [gg EXCEPT !.truth[r.h] = SetDelay(@, r.d)] ELSE gg
      g1b == IF r.a = "addonly" /\ ~gg.isSpec[p]
             THEN [g1 EXCEPT !.pr[p].pend = PendAdd(@, Get(r, "in", <<>>), Get(r, "add", <<>>))] ELSE g1
      g2a == IF Has(r, "st") THEN [g1b EXCEPT !.pr[p].stat = [h \in 0..gg.NP-1 |-> r.st[h+1]]] ELSE g1b
      \* an explicit disconnect_player ends the life cycle of that address without any event
      dq == IF r.a = "disc" /\ r.r = "ok"
            THEN IF r.h < gg.NP THEN gg.owner[r.h]
                 ELSE IF r.h - gg.NP + 1 <= Len(gg.specs[p]) THEN gg.specs[p][r.h - gg.NP + 1] ELSE -1
            ELSE -1
      g2 == IF dq >= 0 THEN [g2a EXCEPT !.pr[p].evs[dq] = <<"disc", 0, @[3]>>,
                                          !.pr[p].dropMark = IF @ = -1 THEN g2a.pr[p].cur ELSE @] ELSE g2a
      expV == When(Has(r, "expect") /\ ~(\E i \in 1..Len(r.expect) : r.expect[i] = r.r),
                   V("C16", r.n, "misuse-not-rejected-as-documented", <<p, r.a, r.r, r.expect>>))
              \o When(Has(r, "expect_add") /\ Has(r, "add") /\ r.add # r.expect_add,
                      V("C16", r.n, "misuse-not-rejected-as-documented", <<p, r.a, r.add, r.expect_add>>))
      \* C15: network_stats
      isStats == r.a = "stats" /\ ~gg.isSpec[p] /\ gg.N = 2 /\ ~Has(r, "expect")
      early == r.t - 1000000 < 1000
      statsV == When(isStats /\ early /\ r.r = "ok",
                     V("C15", r.n, "network-stats-before-enough-data", <<p, r.t>>))
                \o When(isStats /\ ~early /\ r.t - 1000000 >= 1100 /\ gg.pr[p].run /\ r.r # "ok"
                          /\ gg.pr[p].evs[1 - p][1] \in {"run", "intr"},
                        V("C15", r.n, "network-stats-unavailable-after-one-second", <<p, r.r>>))
                \o When(isStats /\ gg.ts.on /\ r.r = "ok" /\ r.t >= 1000000 + gg.ts.warmup
                          /\ (r.ns[1] < 2 * gg.ts.lat \/ r.ns[1] > 2 * gg.ts.lat + 2 * gg.ts.tick + 1),
                        V("C15", r.n, "ping-differs-from-the-round-trip-time", <<p, r.ns[1], 2 * gg.ts.lat>>))
                \o When(isStats /\ gg.ts.on /\ r.r = "ok" /\ r.t >= 1000000 + gg.ts.warmup /\ gg.pr[1 - p].haveStats
                          /\ (r.ns[3] - gg.pr[1 - p].rb > 2 \/ gg.pr[1 - p].rb - r.ns[3] > 2),
                        V("C15", r.n, "local-frames-behind-differs-from-the-peers-remote-figure",
                          <<p, r.ns[3], gg.pr[1 - p].rb>>))
      g3 == IF isStats /\ r.r = "ok"
            THEN [g2 EXCEPT !.pr[p].lb = r.ns[3], !.pr[p].rb = r.ns[4], !.pr[p].haveStats = TRUE] ELSE g2
  IN AddViol(g3, expV \o statsV \o When(isPanic, V("PANIC", r.n, r.r, <<p>>))
                 \o (IF Has(r, "buf") /\ ~gg.isSpec[p] THEN BufViol(gg, p, r) ELSE <<>>))

\* C05: after the faults ended every live session has advanced
RECURSIVE ProgressV(_, _)
ProgressV(gg, p) ==
  IF p >= gg.N THEN <<>>
  ELSE When(gg.pr[p].alive /\ gg.pr[p].cur - gg.pr[p].mark < gg.minProgress,
            IF gg.isSpec[p] /\ gg.pr[p].lastRes = "E:SpectatorTooFarBehind"
            THEN \* the documented overrun of the 60-frame spectator ring (C06): the outage itself was
                 \* longer than the ring, the spectator reports SpectatorTooFarBehind for good
                 V("C05", 0, "spectator-overrun-after-transient-outage", <<p, gg.pr[p].mark, gg.pr[p].cur>>)
            ELSE V("C05", 0, "session-did-not-resume-after-transient-fault", <<p, gg.pr[p].mark, gg.pr[p].cur>>))
       \o ProgressV(gg, p + 1)

\* the code under test panicked in this call: a violation of the property being checked; the
\* peer is gone afterwards
PanicLine(gg, r) ==
  LET live == {p \in 0..gg.N-1 : ~gg.isSpec[p] /\ gg.pr[p].alive}
      \* history class of C10's known finding: a player whose peer is gone and of whose input the
      \* surviving sessions hold different amounts
      unequal == \E h \in 0..gg.NP-1 : gg.owner[h] \notin live
                    /\ \E a, b \in live : gg.pr[a].stat[h][2] # gg.pr[b].stat[h][2]
      cls == IF unequal THEN "cls:unequal-views-of-dropped-player" ELSE "cls:none"
  IN AddViol([gg EXCEPT !.pr[r.p].alive = FALSE, !.stats.panics = @ + 1],
             V("PANIC", r.n, r.r, <<r.p, r.a, cls>>))

\* C10: at the end of a run all surviving player sessions treat every player the same way:
\* connected everywhere, or disconnected everywhere as of the same last frame
CutoffV(gg) ==
  LET live == {p \in 0..gg.N-1 : ~gg.isSpec[p] /\ gg.pr[p].alive /\ gg.pr[p].run}
      bad(h) == \E a, b \in live : gg.pr[a].stat[h] # gg.pr[b].stat[h]
                                    /\ (gg.pr[a].stat[h][1] \/ gg.pr[b].stat[h][1])
                                    /\ gg.owner[h] \notin live
      hs == {h \in 0..gg.NP-1 : bad(h)}
  IN IF hs = {} THEN <<>>
     ELSE LET h == CHOOSE x \in hs : TRUE
          IN V("C10", 0, "survivors-disagree-on-cutoff",
               <<h, [p \in live |-> gg.pr[p].stat[h]]>>)

\* C09 detection half: a real divergence from frame corruptFrom on is reported to every peer for
\* a frame at or after it, within a few reporting intervals
RECURSIVE DetectV(_, _)
DetectV(gg, p) ==
  IF p >= gg.N THEN <<>>
  ELSE LET pe == gg.pr[p]
           I  == gg.desync
           firstBad == gg.corruptFrom + 1                     \* first frame whose saved state differs
           m  == ((firstBad + I - 1) \div I) * I               \* first report frame at or after it
       IN When(~gg.isSpec[p] /\ pe.alive /\ I > 0 /\ pe.desyFirst = -1 /\ pe.conf > m + 3 * I + 2,
               V("C09", 0, "divergence-not-detected", <<p, gg.corruptFrom, pe.conf>>))
          \o When(~gg.isSpec[p] /\ pe.alive /\ I > 0 /\ pe.desyFirst > m + 3 * I,
                  V("C09", 0, "divergence-detected-late", <<p, pe.desyFirst, m, I>>))
          \o DetectV(gg, p + 1)

\* C18: a spectator that stopped acknowledging (it is gone) has been disconnected by its host
SilentSpecV(gg) ==
  LET bad == {q \in 0..gg.N-1 : gg.isSpec[q] /\ ~gg.pr[q].alive /\ gg.pr[gg.host[q]].alive
                                /\ ~gg.pr[gg.host[q]].lossy /\ gg.pr[gg.host[q]].evs[q][1] # "disc"}
  IN IF bad = {} THEN <<>>
     ELSE V("C18", 0, "silent-spectator-not-disconnected", <<CHOOSE q \in bad : TRUE>>)

\* C07: after a remote was dropped the survivor keeps advancing on its own
AfterDropV(gg, n) ==
  LET bad == {p \in 0..gg.N-1 : ~gg.isSpec[p] /\ gg.pr[p].alive /\ gg.pr[p].dropMark # -1
                                /\ gg.pr[p].cur - gg.pr[p].dropMark < n}
  IN IF bad = {} THEN <<>>
     ELSE LET p == CHOOSE x \in bad : TRUE
          IN V("C07", 0, "survivor-stopped-advancing-after-the-drop", <<p, gg.pr[p].dropMark, gg.pr[p].cur>>)

Update(gg, r) ==
  LET a == r.a IN
  IF Has(r, "r") /\ Has(r, "p") /\ a # "cfg" /\ IsPanic(r.r) THEN PanicLine(gg, r) ELSE
  CASE a = "cfg"  -> InitRun(r.cfg, gg.viol, [gg.stats EXCEPT !.runs = @ + 1], gg.run + 1)
    [] a = "tick" -> IF r.r = "skip" THEN gg
                     ELSE IF gg.isSpec[r.p] THEN TickSpec(gg, r) ELSE TickP2P(gg, r)
    [] a = "poll" -> IF r.r = "skip" THEN gg ELSE PollLine(gg, r)
    [] a = "ev"   -> IF r.r = "skip" THEN gg ELSE EvLine(gg, r)
    [] a \in {"disc", "dly", "stats", "addonly"} -> IF r.r = "skip" THEN gg ELSE OtherPeerLine(gg, r)
    [] a = "kill" -> [gg EXCEPT !.pr = [p \in 0..gg.N-1 |->
                                          IF p = r.p THEN [gg.pr[p] EXCEPT !.alive = FALSE]
                                          \* (a session that was still synchronising with the victim never starts:
                                          \*  the handshake has no time-out; C07 speaks of established connections)
                                          ELSE IF gg.pr[p].dropMark = -1 /\ ~gg.isSpec[p] /\ gg.pr[p].run
                                               THEN [gg.pr[p] EXCEPT !.dropMark = gg.pr[p].cur] ELSE gg.pr[p]]]
    [] a = "forge" -> Bump(gg, "forgedPackets", 1)
    [] a = "mark" -> [gg EXCEPT !.marked = TRUE, !.minProgress = r.min_progress,
                                !.pr = [p \in 0..gg.N-1 |-> [gg.pr[p] EXCEPT !.mark = gg.pr[p].cur]]]
    [] a = "end"  -> LET g1 == IF Get(r, "faults_hit", 0) > 0 THEN Bump(gg, "runsWithPlannedFault", 1) ELSE gg
                         g2a == IF g1.N > 0 /\ g1.corrupt THEN AddViol(g1, DetectV(g1, 0)) ELSE g1
                         g2b == IF g2a.N > 0 THEN AddViol(g2a, CutoffV(g2a)) ELSE g2a
                         g2c == IF g2b.N > 0 /\ Get(r, "silent_spectator_check", FALSE)
                                THEN AddViol(g2b, SilentSpecV(g2b)) ELSE g2b
                         g2 == IF g2c.N > 0 /\ Get(r, "after_drop_progress", 0) > 0
                               THEN AddViol(g2c, AfterDropV(g2c, r.after_drop_progress)) ELSE g2c
                     IN IF g2.N > 0 /\ g2.marked
                        THEN AddViol(Bump(g2, "progressChecked", 1), ProgressV(g2, 0)) ELSE g2
    [] a = "dlv"  -> Bump(gg, "delivered", 1)
    [] a = "drop" -> Bump(gg, "dropped", 1)
    [] a = "dup"  -> Bump(gg, "dupd", 1)
    [] OTHER -> gg

=============================================================================
