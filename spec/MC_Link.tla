------------------------------ MODULE MC_Link ------------------------------
(***************************************************************************)
(* One directed input stream and its acknowledgement path between two      *)
(* UdpProtocol endpoints, built from the very operators of Protocol.tla    *)
(* (send_input, send_pending_output, on_input, on_input_ack, pruning of the *)
(* receive history to 2*W frames).  The environment may lose, duplicate    *)
(* and reorder packets within a finite fault budget (budgets and the       *)
(* in-flight capacity are guards, not state constraints); the 200 ms retry *)
(* timer is the fair action Retransmit.                                    *)
(*                                                                         *)
(* SpectatorStyle = TRUE : B never sends inputs (a spectator): its only    *)
(*                         acknowledgements are InputAck packets.          *)
(* SpectatorStyle = FALSE: B is a player: it produces its own inputs, may  *)
(*                         only run W frames ahead of what it received and *)
(*                         piggy-backs acknowledgements on them.           *)
(*                                                                         *)
(* Safety : the receiver's accepted stream is gapless, in order and equal  *)
(*          to what was sent (StreamIntact).                               *)
(* Liveness (C05): once the faults are over, every frame is received.      *)
(***************************************************************************)
EXTENDS Protocol

CONSTANTS W, MaxFrame, Cap, FaultBudget, SpectatorStyle

VARIABLES ea, eb,       \* endpoint of A (towards B) and of B (towards A)
          ab, ba,       \* in-flight packets
          na, nb,       \* next frame A / B will produce
          faults,       \* remaining fault budget
          got           \* ghost: frames B accepted from A, in order, with their values

lvars == <<ea, eb, ab, ba, na, nb, faults, got>>

PinnedBehaviour == FALSE

St(n) == [h \in 0..1 |-> [disc |-> FALSE, last |-> n]]
ValOf(f) == (f * 7 + 3) % 5          \* the input A submits for frame f

Running(e) == [e EXCEPT !.state = "Run", !.sync_remaining = 0, !.remote_magic = <<e.peer, e.me>>]

Init ==
  /\ ea = Running(EP_New(0, 1, <<1>>, 2, 1, W, 2000, 500, 60, 0, 0))
  /\ eb = Running(EP_New(1, 0, <<0>>, 2, 1, W, 2000, 500, 60, 0, 0))
  /\ ab = <<>> /\ ba = <<>>
  /\ na = 0 /\ nb = 0
  /\ faults = FaultBudget
  /\ got = <<>>

\* hand the endpoint's send queue to the link (drop what does not fit: counts as nothing -
\* the capacity is a guard on the producing actions instead)
FlushA(e) == LET r == EP_Flush(e) IN <<r[1], ab \o r[2]>>
FlushB(e) == LET r == EP_Flush(e) IN <<r[1], ba \o r[2]>>

Room(q, n) == Len(q) + n <= Cap

\* A submits its next input (a player may run at most W frames beyond B's newest input)
ProduceA ==
  /\ na <= MaxFrame
  /\ SpectatorStyle \/ na <= EP_LastRecvFrame(ea) + Max2(W, 1)
  /\ Room(ab, 1)
  /\ LET e1 == EP_SendInput(ea, na, <<ValOf(na)>>, St(na), 0)
         r  == FlushA(e1)
     IN ea' = r[1] /\ ab' = r[2]
  /\ na' = na + 1
  /\ UNCHANGED <<eb, ba, nb, faults, got>>

ProduceB ==
  /\ ~SpectatorStyle
  /\ nb <= MaxFrame
  /\ nb <= EP_LastRecvFrame(eb) + Max2(W, 1)
  /\ Room(ba, 1)
  /\ LET e1 == EP_SendInput(eb, nb, <<ValOf(nb)>>, St(nb), 0)
         r  == FlushB(e1)
     IN eb' = r[1] /\ ba' = r[2]
  /\ nb' = nb + 1
  /\ UNCHANGED <<ea, ab, na, faults, got>>

\* the retry timer of poll(): resend everything unacknowledged
RetransmitA ==
  /\ ea.pending # <<>> /\ Room(ab, 1)
  /\ LET r == FlushA(EP_SendPendingOutput(ea, St(na - 1), 0)) IN ea' = r[1] /\ ab' = r[2]
  /\ UNCHANGED <<eb, ba, na, nb, faults, got>>

RetransmitB ==
  /\ eb.pending # <<>> /\ Room(ba, 1)
  /\ LET r == FlushB(EP_SendPendingOutput(eb, St(nb - 1), 0)) IN eb' = r[1] /\ ba' = r[2]
  /\ UNCHANGED <<ea, ab, na, nb, faults, got>>

NewInputs(evs) == SelectSeq(evs, LAMBDA e : e[1] = "Input")

\* B receives the head packet of A->B (replies - InputAck - go to B->A; a reply that does not fit
\* into the bounded link is lost: a full link always holds something deliverable, so this cannot
\* starve the stream)
DeliverAB ==
  /\ ab # <<>>
  /\ LET e1 == EP_Handle(eb, Head(ab), 0)
         evs == NewInputs(e1.evq)
         r  == EP_Flush([e1 EXCEPT !.evq = <<>>])
         fits == Room(ba, Len(r[2]))
     IN /\ eb' = r[1]
        /\ ba' = IF fits THEN ba \o r[2] ELSE ba
        /\ UNCHANGED faults
        /\ got' = got \o [i \in 1..Len(evs) |-> <<evs[i][2], evs[i][4]>>]
  /\ ab' = Tail(ab)
  /\ UNCHANGED <<ea, na, nb>>

DeliverBA ==
  /\ ba # <<>>
  /\ LET e1 == EP_Handle(ea, Head(ba), 0)
         r  == EP_Flush([e1 EXCEPT !.evq = <<>>])
         fits == Room(ab, Len(r[2]))
     IN /\ ea' = r[1]
        /\ ab' = IF fits THEN ab \o r[2] ELSE ab
        /\ UNCHANGED faults
  /\ ba' = Tail(ba)
  /\ UNCHANGED <<eb, na, nb, got>>

\* faults: lose any packet, duplicate the head, swap the two oldest
LoseAB(k) == faults > 0 /\ k \in 1..Len(ab) /\ ab' = SubSeq(ab, 1, k-1) \o SubSeq(ab, k+1, Len(ab))
             /\ faults' = faults - 1 /\ UNCHANGED <<ea, eb, ba, na, nb, got>>
LoseBA(k) == faults > 0 /\ k \in 1..Len(ba) /\ ba' = SubSeq(ba, 1, k-1) \o SubSeq(ba, k+1, Len(ba))
             /\ faults' = faults - 1 /\ UNCHANGED <<ea, eb, ab, na, nb, got>>
DupAB == faults > 0 /\ ab # <<>> /\ Room(ab, 1) /\ ab' = Append(ab, Head(ab))
         /\ faults' = faults - 1 /\ UNCHANGED <<ea, eb, ba, na, nb, got>>
SwapAB == faults > 0 /\ Len(ab) >= 2 /\ ab' = <<ab[2], ab[1]>> \o SubSeq(ab, 3, Len(ab))
          /\ faults' = faults - 1 /\ UNCHANGED <<ea, eb, ba, na, nb, got>>
SwapBA == faults > 0 /\ Len(ba) >= 2 /\ ba' = <<ba[2], ba[1]>> \o SubSeq(ba, 3, Len(ba))
          /\ faults' = faults - 1 /\ UNCHANGED <<ea, eb, ab, na, nb, got>>

Fault == (\E k \in 1..Cap : LoseAB(k) \/ LoseBA(k)) \/ DupAB \/ SwapAB \/ SwapBA

Next == ProduceA \/ ProduceB \/ RetransmitA \/ RetransmitB \/ DeliverAB \/ DeliverBA \/ Fault

Spec == Init /\ [][Next]_lvars
        /\ WF_lvars(ProduceA) /\ WF_lvars(ProduceB)
        /\ WF_lvars(RetransmitA) /\ WF_lvars(RetransmitB)
        /\ WF_lvars(DeliverAB) /\ WF_lvars(DeliverBA)

---------------------------------------------------------------------------
\* what B accepted is exactly A's stream: gapless, in order, right values
StreamIntact == \A i \in 1..Len(got) : got[i] = <<i - 1, ValOf(i - 1)>>
NoEndpointError == ea.err = "" /\ eb.err = ""
\* C18: the receive history is pruned to 2W frames (+ the newest), unacked output is bounded
HistoryBounded == Cardinality(DOMAIN eb.recv) <= 2 * W + 2 /\ Cardinality(DOMAIN ea.recv) <= 2 * W + 2

\* C05: a transient fault never wedges the stream
Delivered == EP_LastRecvFrame(eb) = MaxFrame /\ (SpectatorStyle \/ EP_LastRecvFrame(ea) = MaxFrame)
NoWedge == <>Delivered
=============================================================================
