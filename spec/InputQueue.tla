---------------------------- MODULE InputQueue ----------------------------
(***************************************************************************)
(* src/input_queue.rs transcribed as functional operators on a record.     *)
(* One operator per method, statements in the order of the Rust code.      *)
(* The circular buffer is modelled as it is (head/tail/length over QL      *)
(* slots) so that small QL lets TLC explore wrap-around.  A failed         *)
(* assert!/panic! of the code is the sticky field err # "".                *)
(***************************************************************************)
EXTENDS Integers, Sequences, Props

CONSTANT QL          \* INPUT_QUEUE_LENGTH (128 in the code)

Blank(f) == [frame |-> f, input |-> Default]

\* TRUE: repaired set_frame_delay (fills derived from the queue and inserted at once); the pinned
\* behaviour (FALSE) is kept for regression runs that must exhibit the disagreement
FillFromQueue == TRUE
\* TRUE: repaired register_local_inputs (blank frames in front of a delayed first input are sent)
SendLeadingBlanks == TRUE
PinnedFalse == FALSE

IQ_New ==
  [ head |-> 0, tail |-> 0, length |-> 0, first_frame |-> TRUE,
    last_added |-> NullFrame, last_user |-> NullFrame,
    first_incorrect |-> NullFrame, last_requested |-> NullFrame,
    delay |-> 0,
    pred |-> Blank(NullFrame),
    inputs |-> [i \in 0..QL-1 |-> Blank(NullFrame)],
    err |-> "" ]

PrevPos(h) == IF h = 0 THEN QL - 1 ELSE h - 1

Fail(q, msg) == IF q.err = "" THEN [q EXCEPT !.err = msg] ELSE q

IQ_ResetPrediction(q) ==
  [q EXCEPT !.pred.frame = NullFrame, !.first_incorrect = NullFrame, !.last_requested = NullFrame]

\* confirmed_input: <<ok, input>>
IQ_ConfirmedInput(q, f) ==
  LET off == f % QL
  IN IF f >= 0 /\ q.inputs[off].frame = f THEN <<TRUE, q.inputs[off].input>>
     ELSE <<FALSE, Default>>

IQ_Discard(q, frame0) ==
  LET frame == IF q.last_requested # NullFrame THEN Min2(frame0, q.last_requested) ELSE frame0
  IN IF frame >= q.last_added
     THEN [q EXCEPT !.tail = q.head, !.length = 1]
     ELSE IF frame <= q.inputs[q.tail].frame THEN q
     ELSE LET off == frame - q.inputs[q.tail].frame
          IN [q EXCEPT !.tail = (q.tail + off) % QL, !.length = q.length - off]

\* add_input_by_frame
IQ_AddByFrame(q, val, frame) ==
  LET prev == PrevPos(q.head)
      a1 == q.last_added = NullFrame \/ frame = q.last_added + 1
      a2 == frame = 0 \/ q.inputs[prev].frame = frame - 1
      q1 == [q EXCEPT !.inputs[q.head] = [frame |-> frame, input |-> val],
                      !.head = (q.head + 1) % QL,
                      !.length = q.length + 1,
                      !.first_frame = FALSE,
                      !.last_added = frame]
      a3 == q1.length <= QL
      q2 == IF q1.pred.frame # NullFrame
            THEN LET a4 == frame = q1.pred.frame
                     fi == IF q1.first_incorrect = NullFrame /\ q1.pred.input # val
                           THEN frame ELSE q1.first_incorrect
                     q3 == [q1 EXCEPT !.first_incorrect = fi]
                     q4 == IF q3.pred.frame = q3.last_requested /\ q3.first_incorrect = NullFrame
                           THEN [q3 EXCEPT !.pred.frame = NullFrame]
                           ELSE [q3 EXCEPT !.pred.frame = @ + 1]
                 IN IF a4 THEN q4 ELSE Fail(q4, "add_input_by_frame: frame != prediction.frame")
            ELSE q1
  IN IF ~a1 THEN Fail(q2, "add_input_by_frame: not sequential")
     ELSE IF ~a2 THEN Fail(q2, "add_input_by_frame: previous slot mismatch")
     ELSE IF ~a3 THEN Fail(q2, "add_input_by_frame: queue overflow")
     ELSE q2

\* set_frame_delay: returns <<queue, fills>>; fills is a sequence of [frame, input].
\* (repaired behaviour, repo commit "fix: derive delay-change fills from the queue": the fills are
\* computed from what the queue holds and inserted right away)
IQ_SetFrameDelay(q, d) ==
  LET q1 == [q EXCEPT !.delay = d]
  IN IF FillFromQueue
     THEN IF q.last_added = NullFrame THEN <<q1, <<>>>>
          ELSE LET target == q.last_user + 1 + d
                   start  == q.last_added + 1
                   last   == q.inputs[PrevPos(q.head)]
                   cnt    == IF target > start THEN target - start ELSE 0
                   RECURSIVE Ins(_, _)
                   Ins(x, f) == IF f >= target THEN x ELSE Ins(IQ_AddByFrame(x, last.input, f), f + 1)
               IN <<Ins(q1, start), [i \in 1..cnt |-> [frame |-> start + i - 1, input |-> last.input]]>>
     ELSE \* pinned behaviour: (new - old) fills after the newest queued frame, not inserted
          IF d <= q.delay \/ q.last_added = NullFrame THEN <<q1, <<>>>>
          ELSE LET cnt   == d - q.delay
                   start == q.last_added + 1
                   last  == q.inputs[PrevPos(q.head)]
               IN <<q1, [i \in 1..cnt |-> [frame |-> start + i - 1, input |-> last.input]]>>

\* the fill loop of advance_queue_head: replicate slot `prev` (index computed once, slot read
\* in every iteration, as the code does) for frames e..(target-1)
RECURSIVE IQ_Fill(_, _, _, _)
IQ_Fill(q, prev, e, target) ==
  IF e >= target THEN q ELSE IQ_Fill(IQ_AddByFrame(q, q.inputs[prev].input, e), prev, e + 1, target)

\* advance_queue_head: <<queue, frame or NullFrame>>
IQ_AdvanceHead(q, input_frame0) ==
  LET prev     == PrevPos(q.head)
      expected == IF q.first_frame THEN 0 ELSE q.inputs[prev].frame + 1
      target   == input_frame0 + q.delay
  IN IF expected > target THEN <<q, NullFrame>>
     ELSE LET q1  == IQ_Fill(q, prev, expected, target)
              ok  == target = 0 \/ target = q1.inputs[PrevPos(q1.head)].frame + 1
          IN <<IF ok THEN q1 ELSE Fail(q1, "advance_queue_head: head mismatch"), target>>

\* add_input: <<queue, returned frame>>
IQ_AddInput(q, frame, val) ==
  IF q.last_user # NullFrame /\ frame # q.last_user + 1 THEN <<q, NullFrame>>
  ELSE LET q1 == [q EXCEPT !.last_user = frame]
           r  == IQ_AdvanceHead(q1, frame)
       IN IF r[2] # NullFrame THEN <<IQ_AddByFrame(r[1], val, r[2]), r[2]>> ELSE <<r[1], NullFrame>>

\* input: <<queue, value, status>>
IQ_Input(q, f, predDefault) ==
  LET a1 == q.first_incorrect = NullFrame
      q1 == [q EXCEPT !.last_requested = f]
      a2 == f >= q1.inputs[q1.tail].frame
  IN IF ~a1 THEN <<Fail(q1, "input: first_incorrect_frame is set"), Default, Predicted>>
     ELSE IF ~a2 THEN <<Fail(q1, "input: requested frame older than tail"), Default, Predicted>>
     ELSE IF q1.pred.frame < 0
       THEN LET off == f - q1.inputs[q1.tail].frame
            IN IF off < q1.length
               THEN LET pos == (off + q1.tail) % QL
                    IN IF q1.inputs[pos].frame = f
                       THEN <<q1, q1.inputs[pos].input, Confirmed>>
                       ELSE <<Fail(q1, "input: slot holds another frame"), Default, Predicted>>
               ELSE LET none == f = 0 \/ q1.last_added = NullFrame
                        prevI == q1.inputs[PrevPos(q1.head)]
                        pin  == IF none THEN Default ELSE Predict(predDefault, prevI.input)
                        pfr  == (IF none THEN q1.pred.frame ELSE prevI.frame) + 1
                        q2   == [q1 EXCEPT !.pred = [frame |-> pfr, input |-> pin]]
                    IN IF q2.pred.frame = NullFrame
                       THEN <<Fail(q2, "input: prediction frame is null"), pin, Predicted>>
                       ELSE <<q2, pin, Predicted>>
       ELSE <<q1, q1.pred.input, Predicted>>

\* projection compared with the hook's QueueSnap
IQ_Snap(q) ==
  [ head |-> q.head, tail |-> q.tail, length |-> q.length, first_frame |-> q.first_frame,
    last_added |-> q.last_added, last_user |-> q.last_user,
    first_incorrect |-> q.first_incorrect, last_requested |-> q.last_requested,
    delay |-> q.delay, pred_frame |-> q.pred.frame, pred_input |-> q.pred.input,
    tail_frame |-> q.inputs[q.tail].frame,
    newest_frame |-> q.inputs[PrevPos(q.head)].frame,
    newest_input |-> q.inputs[PrevPos(q.head)].input ]
=============================================================================
