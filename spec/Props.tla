------------------------------- MODULE Props -------------------------------
(***************************************************************************)
(* Pure operators shared by the model-checking specifications and by the   *)
(* trace monitor: the game's hash chain, the predictors, the documented    *)
(* input-delay semantics (owner-side truth), the per-address event         *)
(* automaton and the buffer bounds.  No variables.                         *)
(***************************************************************************)
EXTENDS Integers, Sequences, FiniteSets

NullFrame == -1
Default   == 0           \* Input::default()

\* input status codes as logged by the harness
Confirmed    == 0
Predicted    == 1
Disconnected == 2

Min2(a, b) == IF a < b THEN a ELSE b
Max2(a, b) == IF a > b THEN a ELSE b

---------------------------------------------------------------------------
\* The recording game (harness/src/game.rs): a hash chain over the inputs of
\* every simulated frame.  ins is a sequence of <<value, status>>.
HashMod == 1000003
HashMul == 1009
HashInit == 7

RECURSIVE ChainSum(_, _)
ChainSum(ins, i) ==
  IF i > Len(ins) THEN 0
  ELSE LET v == ins[i][1]
           code == v + (IF ins[i][2] = Disconnected THEN 300 ELSE 0)
       IN  i * (code + 1) * 13 + ChainSum(ins, i + 1)

Chain(h, ins) == (h * HashMul + ChainSum(ins, 1)) % HashMod

---------------------------------------------------------------------------
\* Predictors shipped with the library
Predict(predDefault, prev) == IF predDefault THEN Default ELSE prev

---------------------------------------------------------------------------
(* Owner-side truth: the documented semantics of input delay.              *)
(* A truth record for one player:                                          *)
(*   lastUser  - last user frame accepted (sequential submission)          *)
(*   lastAdded - newest frame that has an effective input                  *)
(*   delay     - current input delay                                       *)
(*   tv        - function frame -> value on lo..lastAdded                  *)
(* "default before the delay has elapsed, an increase repeats the last     *)
(*  input for the frames it opens up, a decrease drops later submissions   *)
(*  until the queue has caught up".                                        *)
TruthInit(d) == [lastUser |-> NullFrame, lastAdded |-> NullFrame, delay |-> d,
                 tv |-> [f \in {} |-> 0]]

TruthLo(t) == IF DOMAIN t.tv = {} THEN t.lastAdded + 1
              ELSE CHOOSE f \in DOMAIN t.tv : \A g \in DOMAIN t.tv : f <= g

TruthHas(t, f) == f \in DOMAIN t.tv
TruthAt(t, f)  == t.tv[f]
TruthNewest(t) == IF t.lastAdded = NullFrame THEN Default ELSE t.tv[t.lastAdded]

\* the user submits value v while the session is at user frame u
Submit(t, u, v) ==
  IF t.lastUser # NullFrame /\ u # t.lastUser + 1 THEN t      \* not sequential: ignored
  ELSE LET target   == u + t.delay
           expected == t.lastAdded + 1
           fill     == TruthNewest(t)
       IN IF expected > target
          THEN [t EXCEPT !.lastUser = u]                       \* dropped (delay decreased)
          ELSE [t EXCEPT !.lastUser = u,
                         !.lastAdded = target,
                         !.tv = [f \in (DOMAIN t.tv) \cup (expected..target) |->
                                   IF f \in DOMAIN t.tv THEN t.tv[f]
                                   ELSE IF f = target THEN v ELSE fill]]

\* set_input_delay: an increase opens frames right away and fills them with the last input (the
\* next submission, for user frame lastUser+1, lands on lastUser+1+d); a decrease opens nothing -
\* later submissions are dropped until the queue has caught up.  Before the first submission
\* only the delay changes.
SetDelay(t, d) ==
  IF t.lastAdded = NullFrame THEN [t EXCEPT !.delay = d]
  ELSE LET target == t.lastUser + 1 + d
           first  == t.lastAdded + 1
           fill   == TruthNewest(t)
       IN IF target <= first THEN [t EXCEPT !.delay = d]
          ELSE [t EXCEPT !.delay = d, !.lastAdded = target - 1,
                         !.tv = [f \in (DOMAIN t.tv) \cup (first..(target - 1)) |->
                                   IF f \in DOMAIN t.tv THEN t.tv[f] ELSE fill]]

\* forget frames below lo (window maintenance; never the newest)
TruthTrim(t, lo) ==
  [t EXCEPT !.tv = [f \in {g \in DOMAIN t.tv : g >= lo \/ g = t.lastAdded} |-> t.tv[f]]]

---------------------------------------------------------------------------
(* Per-address connection life cycle (C12):                                *)
(*   Synchronizing(1) .. Synchronizing(total-1) Synchronized               *)
(*   (Interrupted Resumed)* [Interrupted] [Disconnected], nothing after.   *)
(* State: <<phase, count, total>>, phase in "sync","run","intr","disc",    *)
(* "bad"; total = what the Synchronizing events of this address announce   *)
(* (0 while none has been seen: the property does not fix the number of    *)
(* round trips, only that events and matched round trips agree with it).   *)
EvInit == <<"sync", 0, 0>>

EvStep(s, kind, total, count) ==
  CASE s[1] = "sync" /\ kind = "Sing" ->
          IF count = s[2] + 1 /\ count < total /\ s[3] \in {0, total} THEN <<"sync", count, total>> ELSE <<"bad", 1, s[3]>>
    [] s[1] = "sync" /\ kind = "Sed"  ->
          IF (s[3] = 0 /\ s[2] = 0) \/ (s[3] > 0 /\ s[2] = s[3] - 1) THEN <<"run", 0, s[3]>> ELSE <<"bad", 2, s[3]>>
    [] s[1] = "run"  /\ kind = "Intr" -> <<"intr", 0, s[3]>>
    [] s[1] = "intr" /\ kind = "Resu" -> <<"run", 0, s[3]>>
    [] s[1] \in {"run", "intr"} /\ kind = "Disc" -> <<"disc", 0, s[3]>>
    [] s[1] = "sync" /\ kind = "Disc" -> <<"disc", 0, s[3]>>   \* explicit disconnect while syncing
    [] OTHER -> <<"bad", 3, s[3]>>

\* round trips a handshake needs according to what has been announced (1 if nothing was announced)
EvTotal(s) == IF s[3] > 0 THEN s[3] ELSE 1

\* the library's constant: used by the design models (Protocol.tla), not by the monitor's verdicts
NumSyncRoundTrips == 5

---------------------------------------------------------------------------
\* Buffer bounds (C18), as functions of the configuration
MaxEventQueue      == 100
MaxPendingOutput   == 128
MaxChecksumHistory == 32
InputQueueLength   == 128
SpectatorBuffer    == 60

=============================================================================
