------------------------------ MODULE MC_Codec ------------------------------
(***************************************************************************)
(* Exhaustive instances of the codec theorems over small alphabets:        *)
(*   RoundTrip : decode(ref, encode(ref, inputs)) = inputs                 *)
(*   Total     : SpecDecode(ref, b) is Err or Ok(sequence of inputs)       *)
(* evaluated by TLC as constant expressions (ASSUME).                      *)
(***************************************************************************)
EXTENDS Codec, TLC, FiniteSets

CONSTANTS Bytes,      \* byte values used for references and inputs
          MaxLen,     \* maximal length of a reference / an input
          MaxCount,   \* maximal number of inputs in a sequence
          DecBytes,   \* byte values of arbitrary decoder input
          DecLen      \* maximal length of arbitrary decoder input

SeqsUpTo(S, n) == UNION {[1..k -> S] : k \in 0..n}

Inputs == SeqsUpTo(Bytes, MaxLen)
InputSeqs == SeqsUpTo(Inputs, MaxCount)

RoundTripAll == \A ref \in Inputs : \A ins \in InputSeqs : RoundTrip(ref, ins)

WellFormed(r) == IsErr(r) \/ (\A i \in 1..Len(r.v) : \A j \in 1..Len(r.v[i]) : r.v[i][j] \in 0..255)
TotalAll == \A b \in SeqsUpTo(DecBytes, DecLen) : \A ref \in {<<>>, <<7>>} : WellFormed(SpecDecode(ref, b))

\* the encoder output is always accepted by the validating scan
EncodeValid == \A ref \in Inputs : \A ins \in InputSeqs : RLEScan(SpecEncode(ref, ins), 1, 0)[1] = "ok"

\* evaluated as invariants of a one-state specification (TLC's worker threads have the deep stack
\* the recursive definitions need; ASSUMEs are evaluated on the small main-thread stack)
VARIABLE done
Init == done = FALSE /\ PrintT(<<"MC-CODEC", "cases", Cardinality(Inputs) * Cardinality(InputSeqs),
                                 "decoder-inputs", Cardinality(SeqsUpTo(DecBytes, DecLen))>>)
Next == done' = TRUE
Spec == Init /\ [][Next]_done
=============================================================================
