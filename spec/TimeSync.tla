------------------------------ MODULE TimeSync ------------------------------
(***************************************************************************)
(* src/time_sync.rs: two 30-slot windows indexed by frame % 30; the average *)
(* advantage is ((sum(remote)/30 - sum(local)/30) / 2) truncated toward     *)
(* zero.  The code computes it in f32; the specification uses the exact     *)
(* rational (sum(remote) - sum(local)) / 60.  Trace_TimeSync validates      *)
(* records of the real window against it.                                   *)
(***************************************************************************)
EXTENDS Integers, Sequences, F32

Window == 30
TS_New == [l |-> [i \in 0..Window-1 |-> 0], r |-> [i \in 0..Window-1 |-> 0]]
TS_Advance(ts, frame, la, ra) == [ts EXCEPT !.l[frame % Window] = la, !.r[frame % Window] = ra]
SumW(a) == LET RECURSIVE S(_) S(i) == IF i < 0 THEN 0 ELSE a[i] + S(i - 1) IN S(Window - 1)
Trunc(a, b) == IF a >= 0 THEN a \div b ELSE -((-a) \div b)
TS_Average(ts) == Trunc(SumW(ts.r) - SumW(ts.l), 2 * Window)

\* What the f32 computation of the code may return: the exact truncated quotient - except that at an
\* exact non-zero multiple of 60 the two rounded window averages can differ by one ulp less than the
\* integer, which truncates to one less in magnitude (measured: d = 120 -> 1, d = -240 -> -3).
TS_AverageOK(ts, v) ==
  LET d == SumW(ts.r) - SumW(ts.l)
      e == Trunc(d, 2 * Window)
  IN v = e \/ (d # 0 /\ d % (2 * Window) = 0 /\ v = (IF d > 0 THEN e - 1 ELSE e + 1))

TS_AverageF32(ts) == F32Average(SumW(ts.r), SumW(ts.l))

\* with both windows filled by a steady lead k (local advantage -k, remote advantage +k) the
\* average is exactly k; the two sides' averages are antisymmetric
SteadyLead(k) == LET ts == [l |-> [i \in 0..Window-1 |-> -k], r |-> [i \in 0..Window-1 |-> k]]
                 IN TS_Average(ts) = k
Antisymmetric(ts) == TS_Average([l |-> ts.r, r |-> ts.l]) = -TS_Average(ts)
=============================================================================
