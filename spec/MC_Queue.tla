------------------------------ MODULE MC_Queue ------------------------------
(***************************************************************************)
(* One InputQueue (InputQueue.tla) driven by a client that respects the    *)
(* protocol the sync layer and the session follow:                         *)
(*   Arrive  - the next real input of the player is added (sequentially)   *)
(*   Request - the input of the current frame is requested; allowed only   *)
(*             when no misprediction is pending and within the prediction  *)
(*             window; the frame advances                                  *)
(*   Rollback- a pending misprediction is handled: reset_prediction and    *)
(*             the frame goes back to the first incorrect frame            *)
(*   Confirm - confirmed frames are discarded (set_last_confirmed_frame)   *)
(* The ring has only QL slots here, so TLC explores wrap-around, which the *)
(* real 128-slot ring reaches only after long histories.                   *)
(*                                                                         *)
(* Queue-level core of C03/C01: a Confirmed answer is the real input, a    *)
(* Predicted answer is the predictor of the newest real input,             *)
(* first_incorrect_frame is exactly the earliest handed-out prediction     *)
(* that turned out wrong, and nothing needed is ever discarded.            *)
(* Every step is also printed (hist) so that the harness can replay the    *)
(* behaviour on the real queue (verif::InputQueueProbe).                   *)
(***************************************************************************)
EXTENDS InputQueue, TLC, Json

CONSTANTS W, MaxFrame, Values, PredDefault

VARIABLES q, cur, nextAdd, real, handed, lastRes, hist

qvars == <<q, cur, nextAdd, real, handed, lastRes, hist>>

Init == /\ q = IQ_New /\ cur = 0 /\ nextAdd = 0
        /\ real = <<>>                       \* real[f+1] = the input of frame f
        /\ handed = [f \in {} |-> <<0, 0>>]    \* frame -> <<value, status>> handed out since the last reset
        /\ lastRes = <<>>
        /\ hist = <<>>

Arrive(v) ==
  /\ nextAdd <= MaxFrame
  /\ q.length < QL - 1
  /\ LET r == IQ_AddInput(q, nextAdd, v)
     IN /\ q' = r[1]
        /\ lastRes' = <<"add", r[2]>>
        /\ hist' = Append(hist, [op |-> "add", f |-> nextAdd, v |-> v, ret |-> r[2]])
  /\ real' = Append(real, v)
  /\ nextAdd' = nextAdd + 1
  /\ UNCHANGED <<cur, handed>>

Request ==
  /\ q.first_incorrect = NullFrame
  /\ cur <= MaxFrame
  /\ cur - q.last_added <= W            \* the session never simulates beyond the window
  /\ LET r == IQ_Input(q, cur, PredDefault)
     IN /\ q' = r[1]
        /\ lastRes' = <<"input", cur, r[2], r[3], q.last_added>>
        /\ handed' = [f \in (DOMAIN handed) \cup {cur} |-> IF f = cur THEN <<r[2], r[3]>> ELSE handed[f]]
        /\ hist' = Append(hist, [op |-> "input", f |-> cur, v |-> r[2], st |-> r[3]])
  /\ cur' = cur + 1
  /\ UNCHANGED <<nextAdd, real>>

Rollback ==
  /\ q.first_incorrect # NullFrame
  /\ q' = IQ_ResetPrediction(q)
  /\ cur' = q.first_incorrect
  /\ handed' = [f \in {g \in DOMAIN handed : g < q.first_incorrect} |-> handed[f]]
  /\ lastRes' = <<"rollback", q.first_incorrect>>
  /\ hist' = Append(hist, [op |-> "reset", f |-> q.first_incorrect])
  /\ UNCHANGED <<nextAdd, real>>

\* set_last_confirmed_frame(min(newest input, current frame)) -> discard_confirmed_frames(frame - 1)
Confirm ==
  /\ q.first_incorrect = NullFrame
  /\ LET f == Min2(q.last_added, cur)
     IN /\ f > 0
        /\ q' = IQ_Discard(q, f - 1)
        /\ hist' = Append(hist, [op |-> "discard", f |-> f - 1])
  /\ lastRes' = <<"discard">>
  /\ UNCHANGED <<cur, nextAdd, real, handed>>

Next == (\E v \in Values : Arrive(v)) \/ Request \/ Rollback \/ Confirm

Spec == Init /\ [][Next]_qvars

---------------------------------------------------------------------------
NoQueueError == q.err = ""

\* the answer of the last Request is truthful
Truthful ==
  lastRes # <<>> /\ lastRes[1] = "input" =>
    LET f == lastRes[2]  v == lastRes[3]  s == lastRes[4]  newest == lastRes[5]
    IN /\ s = Confirmed => f + 1 <= Len(real) /\ v = real[f + 1] /\ f <= newest
       /\ s = Predicted => f > newest /\ v = (IF newest = NullFrame \/ f = 0 THEN Default
                                                ELSE Predict(PredDefault, real[newest + 1]))

\* first_incorrect_frame = the earliest handed-out prediction that has turned out wrong
Wrong == {f \in DOMAIN handed : handed[f][2] = Predicted /\ f + 1 <= Len(real) /\ handed[f][1] # real[f + 1]}
FirstIncorrectExact ==
  q.first_incorrect = (IF Wrong = {} THEN NullFrame ELSE CHOOSE f \in Wrong : \A g \in Wrong : f <= g)

\* every frame that can still be requested (from the oldest unconfirmed one) is still held
NothingNeededDiscarded ==
  q.last_added # NullFrame => q.inputs[q.tail].frame <= Min2(cur, q.last_added)

Emit == PrintT(<<"QUEUE", ToJson(hist)>>)
View == <<q, cur, nextAdd, real, handed>>
=============================================================================
