SPECIFICATION Spec
CONSTANTS
  QL = 128
INVARIANT Report
POSTCONDITION Accepted
CHECK_DEADLOCK FALSE
