----------------------------- MODULE FaultPlan -----------------------------
(***************************************************************************)
(* The bounded-exhaustive fault space of C05, enumerated by TLC: every set *)
(* of at most K faults, each fault = (directed link, phase, index of the   *)
(* packet on that link within the phase, kind).  Phase "sync" counts all   *)
(* packets from the start of the session (the handshake), phase "run"      *)
(* counts input packets after the session is Running.  The harness turns   *)
(* each plan into per-packet fates and runs it on the real sessions.       *)
(***************************************************************************)
EXTENDS Integers, FiniteSets, FiniteSetsExt, Sequences, TLC, Json

CONSTANTS NLinks,     \* directed links are numbered 0..NLinks-1 (harness maps them to peer pairs)
          M,          \* faults may hit the first M packets of each phase
          K,          \* at most K faults per plan
          Delays      \* set of delay amounts (ms) for the "delay" kind

Kinds == {"drop", "dup"} \cup {"delay"}
Atom == [link : 0..NLinks-1, phase : {"sync", "run"}, idx : 1..M, kind : {"drop", "dup"}, d : {0}]
        \cup [link : 0..NLinks-1, phase : {"sync", "run"}, idx : 1..M, kind : {"delay"}, d : Delays]

\* a plan never puts two faults on the same packet
SamePkt(a, b) == a.link = b.link /\ a.phase = b.phase /\ a.idx = b.idx
RECURSIVE UpTo(_)
UpTo(k) == IF k = 0 THEN {{}} ELSE LET P == UpTo(k - 1) IN P \cup {S \cup {a} : S \in P, a \in Atom}
Plans == {S \in UpTo(K) : \A a, b \in S : a # b => ~SamePkt(a, b)}

SetToSeq(S) == LET RECURSIVE F(_) F(T) == IF T = {} THEN <<>> ELSE LET x == CHOOSE y \in T : TRUE IN <<x>> \o F(T \ {x}) IN F(S)

ASSUME PrintT(<<"PLANS", Cardinality(Plans)>>)
ASSUME \A S \in Plans : PrintT(<<"PLAN", ToJson(SetToSeq(S))>>)
=============================================================================
