
