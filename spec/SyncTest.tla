------------------------------ MODULE SyncTest ------------------------------
(***************************************************************************)
(* src/sessions/sync_test_session.rs as functional operators: the sync     *)
(* layer plus checksum_history and the compare-then-roll-back step.        *)
(* ST_Advance is one advance_frame call; the user (ExecST) executes the    *)
(* request list afterwards, saving the game's hash as checksum.            *)
(***************************************************************************)
EXTENDS SyncLayer, FiniteSets

ST_New(np, W, cd, delay) ==
  LET sl0 == SL_New(np, W)
  IN [ np |-> np, W |-> W, cd |-> cd,
       sl |-> [sl0 EXCEPT !.queues = [h \in 0..np-1 |-> IQ_SetFrameDelay(sl0.queues[h], delay)[1]]],
       status |-> [h \in 0..np-1 |-> [disc |-> FALSE, last |-> NullFrame]],
       hist |-> [f \in {} |-> 0],          \* checksum_history: frame -> first checksum seen
       locals |-> [h \in {} |-> 0],        \* local_inputs: handle -> [frame, val]
       err |-> "" ]

ST_AddLocalInput(s, h, v) ==
  IF h >= s.np THEN <<s, "E:InvalidRequest">>
  ELSE <<[s EXCEPT !.locals = [x \in (DOMAIN s.locals) \cup {h} |->
                                 IF x = h THEN [frame |-> s.sl.cur, val |-> v] ELSE s.locals[x]]], "ok">>

\* checksums_consistent(frame): <<history, consistent>>
ST_Consistent(s, cells, hist0, f) ==
  LET oldest == s.sl.cur - s.cd
      h1 == [x \in {y \in DOMAIN hist0 : y >= oldest} |-> hist0[x]]
      slot == SL_SavedByFrame(s.W, cells, f)
  IN IF slot = -1 THEN <<h1, TRUE>>
     ELSE IF f \in DOMAIN h1 THEN <<h1, h1[f] = cells[slot].hash>>
     ELSE <<[x \in (DOMAIN h1) \cup {f} |-> IF x = f THEN cells[slot].hash ELSE h1[x]], TRUE>>

\* the comparison loop over oldest..cur: <<history, mismatched frames (ascending)>>
RECURSIVE ST_Compare(_, _, _, _, _, _)
ST_Compare(s, cells, hist0, f, hi, acc) ==
  IF f > hi THEN <<hist0, acc>>
  ELSE LET r == ST_Consistent(s, cells, hist0, f)
       IN ST_Compare(s, cells, r[1], f + 1, hi, IF r[2] THEN acc ELSE Append(acc, f))

\* adjust_gamestate(frame_to): <<sl, requests>>
RECURSIVE ST_Resim(_, _, _, _, _)
ST_Resim(sl, status, reqs, i, count) ==
  IF i >= count THEN <<sl, reqs>>
  ELSE LET r   == SL_SyncInputs(sl, status, FALSE)
           sv  == SL_Save(r[1])
           sl2 == IF i > 0 THEN sv[1] ELSE r[1]
           rq  == IF i > 0 THEN Append(reqs, sv[2]) ELSE reqs
       IN ST_Resim([sl2 EXCEPT !.cur = @ + 1], status, Append(rq, <<"A", r[2]>>), i + 1, count)

ST_Adjust(s, cells, frame_to, reqs) ==
  LET start == s.sl.cur
      ld == SL_Load(s.sl, cells, frame_to)
      r  == ST_Resim(SL_ResetPrediction(ld[1]), s.status, Append(reqs, ld[2]), 0, start - frame_to)
  IN IF ld[1].err # "" THEN <<ld[1], reqs>> ELSE r

\* set the queues' inputs: local_inputs are handed to the sync layer in map order (ascending here)
RECURSIVE ST_AddAll(_, _, _)
ST_AddAll(sl, locals, h) ==
  IF h >= sl.np THEN sl
  ELSE ST_AddAll(IF h \in DOMAIN locals THEN SL_AddLocalInput(sl, h, locals[h].frame, locals[h].val)[1] ELSE sl,
                 locals, h + 1)

\* advance_frame: <<s, result, mismatched frames, requests>>
ST_Advance(s, cells) ==
  LET cur == s.sl.cur
      doCmp == s.cd > 0 /\ cur > s.cd
      cmp == IF doCmp THEN ST_Compare(s, cells, s.hist, cur - s.cd, cur, <<>>) ELSE <<s.hist, <<>>>>
      s1 == [s EXCEPT !.hist = cmp[1]]
  IN IF cmp[2] # <<>> THEN <<s1, "E:MismatchedChecksum", cmp[2], <<>>>>
     ELSE
       LET adj == IF doCmp THEN ST_Adjust(s1, cells, cur - s1.cd, <<>>) ELSE <<s1.sl, <<>>>>
           s2  == [s1 EXCEPT !.sl = adj[1]]
       IN IF s2.sl.err # "" THEN <<[s2 EXCEPT !.err = s2.sl.err], "P", <<>>, adj[2]>>
          ELSE IF Cardinality(DOMAIN s2.locals) # s2.np THEN <<s2, "E:InvalidRequest", <<>>, <<>>>>
          ELSE
            LET sl3 == ST_AddAll(s2.sl, s2.locals, 0)
                sv  == SL_Save(sl3)
                sl4 == IF s2.cd > 0 THEN sv[1] ELSE sl3
                rq1 == IF s2.cd > 0 THEN Append(adj[2], sv[2]) ELSE adj[2]
                si  == SL_SyncInputs(sl4, s2.status, FALSE)
                sl5 == [si[1] EXCEPT !.cur = @ + 1]
                sl6 == SL_SetLastConfirmed(sl5, sl5.cur - s2.cd, FALSE)
                s3  == [s2 EXCEPT !.sl = sl6, !.locals = [h \in {} |-> 0],
                                  !.status = [h \in 0..s2.np-1 |-> [disc |-> FALSE, last |-> sl6.cur]]]
            IN IF sl6.err # "" THEN <<[s3 EXCEPT !.err = sl6.err], "P", <<>>, rq1>>
               ELSE <<s3, "ok", <<>>, Append(rq1, <<"A", si[2]>>)>>
=============================================================================
