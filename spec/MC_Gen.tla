------------------------------- MODULE MC_Gen -------------------------------
(***************************************************************************)
(* Schedule generation (spec -> impl): System.tla plus a history variable  *)
(* that records every step in the harness' step vocabulary.  Run with      *)
(*   tlc -simulate num=N -depth D                                          *)
(* every behaviour ends with the Finish step, at which the schedule is     *)
(* printed as one JSON line ("SCHED").  The harness replays each schedule  *)
(* on the real sessions; Trace_Sys / Trace_Obs then judge the real trace.  *)
(***************************************************************************)
EXTENDS MC_Sys, Json

CONSTANT MaxSteps

VARIABLES hist, finished

gvars == <<sysvars, hist, finished>>

StepOf(ln) ==
  CASE ln.a = "tick" -> IF "wait" \in DOMAIN ln
                        THEN [a |-> "tick", p |-> ln.p, in |-> ln["in"], wait |-> ln.wait, arr |-> ln.arr]
                        ELSE IF "in" \in DOMAIN ln THEN [a |-> "tick", p |-> ln.p, in |-> ln["in"]]
                        ELSE [a |-> "tick", p |-> ln.p]          \* a spectator has no inputs
    [] ln.a \in {"poll", "ev", "kill"} -> [a |-> ln.a, p |-> ln.p]
    [] ln.a \in {"dlv", "drop", "dup"} -> [a |-> ln.a, from |-> ln.from, to |-> ln.to, k |-> ln.k]
    [] ln.a = "clk" -> [a |-> "clk", d |-> ln.d]
    [] ln.a = "disc" -> [a |-> "disc", p |-> ln.p, h |-> ln.h]
    [] ln.a = "dly" -> [a |-> "dly", p |-> ln.p, h |-> ln.h, d |-> ln.d]
    [] OTHER -> [a |-> "nop"]

GenInit == Init /\ hist = <<>> /\ finished = FALSE

Quiescent == /\ \A p \in P2PIds : ~alive[p] \/ ss[p].sl.cur >= MaxFrame \/ ss[p].err # ""
             /\ \A lk \in Links : net[lk] = <<>>

GenStep ==
  /\ ~finished
  /\ Len(hist) < MaxSteps
  /\ Next
  /\ hist' = Append(hist, StepOf(lastLine'))
  /\ UNCHANGED finished

Finish ==
  /\ ~finished
  /\ Len(hist) >= MaxSteps \/ Quiescent
  /\ finished' = TRUE
  /\ UNCHANGED <<sysvars, hist>>

GenNext == GenStep \/ Finish

GenSpec == GenInit /\ [][GenNext]_gvars

EmitSchedule == finished => PrintT(<<"SCHED", ToJson([steps |-> hist, viol |-> g.viol])>>)
=============================================================================
