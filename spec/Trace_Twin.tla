----------------------------- MODULE Trace_Twin -----------------------------
(***************************************************************************)
(* Non-interference (C06): the same schedule executed on the real sessions *)
(* twice - once with spectators attached, once without (all steps that     *)
(* involve a spectator removed) - must give every player session the same  *)
(* final simulation (inputs and Disconnected flags) of every confirmed     *)
(* frame.                                                                  *)
(* Also used for C16 (a misuse call leaves the behaviour unchanged) and    *)
(* C17 (repeated runs are identical).  Evaluated by TLC as constant        *)
(* expressions over the two recorded traces.                               *)
(***************************************************************************)
EXTENDS Integers, Sequences, TLC, Json, IOUtils, SequencesExt

A == ndJsonDeserialize(IOEnv.TRACE)
B == ndJsonDeserialize(IOEnv.TRACE2)

\* peers compared: the p2p peers of trace B's configuration (B is the run without spectators)
NPeers == Len(B[1].cfg.peers)
IsP2P(p) == B[1].cfg.peers[p+1].kind = "p2p"

\* final timeline of peer p in trace T: frame -> inputs of the last simulation, and the last
\* confirmed frame the peer reported
TickLines(T, p) == SelectSeq(T, LAMBDA r : r.a = "tick" /\ r.p = p /\ r.r = "ok" /\ "q" \in DOMAIN r)

ReqFold(acc, rq) ==
  CASE rq[1] = "L" -> [acc EXCEPT !.gf = rq[3]]
    [] rq[1] = "A" -> [acc EXCEPT !.sim = [x \in (DOMAIN acc.sim) \cup {acc.gf} |->
                                            IF x = acc.gf THEN rq[2] ELSE acc.sim[x]],
                                  !.gf = acc.gf + 1]
    [] OTHER -> acc

LineFold(acc, r) ==
  LET a1 == FoldLeft(ReqFold, [acc EXCEPT !.gf = r.g0[1]], r.q)
  IN [a1 EXCEPT !.conf = IF r.conf > a1.conf THEN r.conf ELSE a1.conf]

Timeline(T, p) == FoldLeft(LineFold, [sim |-> [x \in {} |-> <<>>], gf |-> 0, conf |-> -1], TickLines(T, p))

\* values and Disconnected flags matter; Confirmed vs Predicted may differ with timing
Norm(ins) == [i \in 1..Len(ins) |-> <<ins[i][1], ins[i][2] = 2>>]

\* first confirmed frame at which the two runs simulated peer p differently (-1 = identical)
FirstDiff(p) ==
  LET x == Timeline(A, p)  y == Timeline(B, p)
      hi == IF x.conf < y.conf THEN x.conf ELSE y.conf
      fs == {f \in (DOMAIN x.sim) \cap (DOMAIN y.sim) : f <= hi}
      d  == {f \in fs : Norm(x.sim[f]) # Norm(y.sim[f])}
  IN IF d = {} THEN -1 ELSE CHOOSE f \in d : \A e \in d : f <= e

Compared(p) ==
  LET x == Timeline(A, p)  y == Timeline(B, p)
      hi == IF x.conf < y.conf THEN x.conf ELSE y.conf
  IN hi + 1

Result == [p \in {q \in 0..NPeers-1 : IsP2P(q)} |-> FirstDiff(p)]
Calls  == [p \in {q \in 0..NPeers-1 : IsP2P(q)} |-> Compared(p)]

ASSUME PrintT(<<"TWIN-RESULT", ToJson([diff |-> Result, calls |-> Calls])>>)
=============================================================================
