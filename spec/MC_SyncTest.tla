---------------------------- MODULE MC_SyncTest ----------------------------
(***************************************************************************)
(* SyncTestSession (SyncTest.tla) driven by a user who submits inputs for  *)
(* every player and executes the request lists with the recording game;    *)
(* the game may deviate on the K-th simulation of one frame (a             *)
(* non-deterministic step).  Every call yields the observation line the    *)
(* harness would log and feeds the property monitor:                       *)
(*   C13  deterministic game => never MismatchedChecksum; a glitch with    *)
(*        check distance >= 2 is reported within check_distance+2 calls    *)
(*        and names the first affected frame                               *)
(*   C02/C03/C01 request lists executable, all inputs Confirmed and equal  *)
(*        to the delay-shifted submissions                                 *)
(***************************************************************************)
EXTENDS SyncTest, Monitor

CONSTANTS NP, W, CD, Delay, Values, MaxFrame, GlitchFrame, GlitchK

VARIABLES st, cells, game, gcount, stopped, g, lastLine

svars == <<st, cells, game, gcount, stopped, g, lastLine>>

Cfg == [ players |-> NP, window |-> W, sparse |-> FALSE, predictor |-> "repeat", desync |-> 0,
         notify |-> 500, timeout |-> 2000, max_behind |-> 10, catchup |-> 1, max_delay |-> 8,
         check_distance |-> CD, glitch_frame |-> (IF GlitchFrame >= 999 THEN -1 ELSE GlitchFrame), glitch_k |-> GlitchK,
         peers |-> << [kind |-> "synctest", locals |-> [i \in 1..NP |-> i - 1], delay |-> Delay, host |-> 0] >> ]

Init ==
  /\ st = ST_New(NP, W, CD, Delay)
  /\ cells = CellsNew(W)
  /\ game = [frame |-> 0, hash |-> HashInit]
  /\ gcount = 0
  /\ stopped = FALSE
  /\ g = InitRun(Cfg, <<>>, Stats0, 1)
  /\ lastLine = [a |-> "init"]

\* the recording game with its glitch: <<cells, game, annotated requests, gcount, fired>>
RECURSIVE Exec(_, _, _, _, _, _, _)
Exec(cs, gm, reqs, i, acc, gc, fired) ==
  IF i > Len(reqs) THEN <<cs, gm, acc, gc, fired>>
  ELSE LET rq == reqs[i]
       IN CASE rq[1] = "S" ->
                 Exec([cs EXCEPT ![CellSlot(W, rq[2])] = [frame |-> rq[2], hash |-> gm.hash]], gm, reqs, i + 1,
                      Append(acc, <<"S", rq[2], gm.frame, gm.hash>>), gc, fired)
            [] rq[1] = "L" ->
                 LET c == cs[CellSlot(W, rq[2])]
                 IN Exec(cs, [frame |-> c.frame, hash |-> c.hash], reqs, i + 1,
                         Append(acc, <<"L", rq[2], c.frame, c.hash>>), gc, fired)
            [] OTHER ->
                 LET gc1 == IF gm.frame = GlitchFrame THEN gc + 1 ELSE gc
                     gl  == gm.frame = GlitchFrame /\ gc1 = GlitchK
                     h0  == Chain(gm.hash, rq[2])
                     h1  == IF gl THEN (h0 + 1) % HashMod ELSE h0
                 IN Exec(cs, [frame |-> gm.frame + 1, hash |-> h1], reqs, i + 1,
                         Append(acc, <<"A", rq[2]>>), gc1, fired \/ gl)

RECURSIVE AddAllST(_, _, _)
AddAllST(s, vals, h) == IF h >= NP THEN s ELSE AddAllST(ST_AddLocalInput(s, h, vals[h+1])[1], vals, h + 1)

Tick(vals) ==
  LET s1 == AddAllST(st, vals, 0)
      r  == ST_Advance(s1, cells)
      ex == IF r[2] = "ok" THEN Exec(cells, game, r[4], 1, <<>>, gcount, FALSE)
            ELSE <<cells, game, <<>>, gcount, FALSE>>
      cur == r[1].sl.cur
      base == [ a |-> "tick", p |-> 0, n |-> 0, t |-> 0,
                in |-> [i \in 1..NP |-> <<i - 1, vals[i]>>], add |-> [i \in 1..NP |-> "ok"],
                r |-> IF r[2] = "P" THEN "P:" \o r[1].err ELSE r[2],
                q |-> ex[3], cur0 |-> st.sl.cur, g0 |-> <<game.frame, game.hash>>,
                g |-> <<ex[2].frame, ex[2].hash>>, cur |-> cur, conf |-> cur - 1, run |-> TRUE, fa |-> 0,
                evq |-> 0, rxi |-> <<>>, rxf |-> <<>>, ntx |-> 0,
                st |-> [i \in 1..NP |-> <<FALSE, cur - 1 + Delay>>] ]
      line == IF r[2] = "E:MismatchedChecksum" THEN base @@ [mm |-> r[3]]
              ELSE IF ex[5] THEN base @@ [glitched |-> TRUE] ELSE base
  IN /\ st' = r[1]
     /\ cells' = ex[1] /\ game' = ex[2] /\ gcount' = ex[4]
     /\ stopped' = (r[2] # "ok")
     /\ g' = Update(g, line) /\ lastLine' = line

Next == ~stopped /\ st.sl.cur < MaxFrame /\ \E vals \in [1..NP -> Values] : Tick(vals)

Spec == Init /\ [][Next]_svars

NoViolation == g.viol = <<>>
NoPanic == st.err = ""
\* a glitch that fired is eventually reported (bounded version: by the end of the exploration window)
View == <<st, cells, game, gcount, stopped, [g EXCEPT !.stats = 0]>>
=============================================================================
