----------------------------- MODULE Trace_Obs -----------------------------
(***************************************************************************)
(* Property monitor over traces of the REAL ggrs sessions: consumes the    *)
(* ndjson lines written by the harness one by one through Monitor!Update   *)
(* and prints the collected violations as one OBS-RESULT line when the     *)
(* trace is exhausted; TraceAccepted (POSTCONDITION) demands that every    *)
(* line was consumed.                                                      *)
(***************************************************************************)
EXTENDS Monitor, TLCExt, Json, IOUtils

Rec == ndJsonDeserialize(IOEnv.TRACE)

VARIABLES l,      \* index of the next line to consume
          g       \* ghost state

vars == <<l, g>>

---------------------------------------------------------------------------
Init == l = 1 /\ g = G0

Next == /\ l <= Len(Rec)
        /\ l' = l + 1
        /\ g' = Update(g, Rec[l])

Spec == Init /\ [][Next]_vars

\* one line of output when the whole trace has been consumed
Report ==
  l = Len(Rec) + 1 =>
    PrintT(<<"OBS-RESULT", ToJson([lines |-> Len(Rec), viol |-> g.viol, stats |-> g.stats])>>)

TraceAccepted ==
  LET d == TLCGet("stats").diameter
  IN IF d - 1 = Len(Rec) THEN TRUE
     ELSE Print(<<"OBS-INCOMPLETE", d - 1, Len(Rec)>>, FALSE)
=============================================================================
