------------------------------ MODULE Trace_ST ------------------------------
(***************************************************************************)
(* Conformance of SyncTest.tla: a detail-2 trace of a real SyncTestSession *)
(* (one `synctest` peer) is replayed through ST_AddLocalInput / ST_Advance *)
(* and the recording game; results, request lists (with the hashes saved   *)
(* and loaded), mismatched frames, frames and the internal snapshot must   *)
(* match line by line.  The first mismatch is kept in `drift`.             *)
(***************************************************************************)
EXTENDS SyncTest, TLC, TLCExt, Json, IOUtils, SequencesExt

Rec == ndJsonDeserialize(IOEnv.TRACE)
C0 == Rec[1].cfg
NP == C0.players
W == C0.window
CD == C0.check_distance
Delay == C0.peers[1].delay
GlitchFrame == IF "glitch_frame" \in DOMAIN C0 THEN C0.glitch_frame ELSE -1
GlitchK == IF "glitch_k" \in DOMAIN C0 THEN C0.glitch_k ELSE 0

VARIABLES l, st, cells, game, gcount, drift
tvars == <<l, st, cells, game, gcount, drift>>

RECURSIVE Exec(_, _, _, _, _, _)
Exec(cs, gm, reqs, i, acc, gc) ==
  IF i > Len(reqs) THEN <<cs, gm, acc, gc>>
  ELSE LET rq == reqs[i]
       IN CASE rq[1] = "S" ->
                 Exec([cs EXCEPT ![CellSlot(W, rq[2])] = [frame |-> rq[2], hash |-> gm.hash]], gm, reqs, i + 1,
                      Append(acc, <<"S", rq[2], gm.frame, gm.hash>>), gc)
            [] rq[1] = "L" ->
                 LET c == cs[CellSlot(W, rq[2])]
                 IN Exec(cs, [frame |-> c.frame, hash |-> c.hash], reqs, i + 1,
                         Append(acc, <<"L", rq[2], c.frame, c.hash>>), gc)
            [] OTHER ->
                 LET gc1 == IF gm.frame = GlitchFrame THEN gc + 1 ELSE gc
                     h0  == Chain(gm.hash, rq[2])
                     h1  == IF gm.frame = GlitchFrame /\ gc1 = GlitchK THEN (h0 + 1) % HashMod ELSE h0
                 IN Exec(cs, [frame |-> gm.frame + 1, hash |-> h1], reqs, i + 1, Append(acc, <<"A", rq[2]>>), gc1)

RECURSIVE AddAll(_, _, _)
AddAll(s, ins, i) == IF i > Len(ins) THEN s ELSE AddAll(ST_AddLocalInput(s, ins[i][1], ins[i][2])[1], ins, i + 1)

RECURSIVE AddResults(_, _, _)
AddResults(s, ins, i) ==
  IF i > Len(ins) THEN <<>>
  ELSE LET a == ST_AddLocalInput(s, ins[i][1], ins[i][2]) IN <<a[2]>> \o AddResults(a[1], ins, i + 1)

QSnap(q) ==
  [ head |-> q.head, tail |-> q.tail, length |-> q.length, first_frame |-> q.first_frame,
    last_added |-> q.last_added, last_user |-> q.last_user, first_incorrect |-> q.first_incorrect,
    last_requested |-> q.last_requested, delay |-> q.delay, pred_frame |-> q.pred.frame,
    pred_input |-> <<q.pred.input>>, tail_frame |-> q.inputs[q.tail].frame,
    newest_frame |-> q.inputs[PrevPos(q.head)].frame, newest_input |-> <<q.inputs[PrevPos(q.head)].input>> ]

SortedSeqOf(S) == LET RECURSIVE F(_) F(T) == IF T = {} THEN <<>>
                                             ELSE LET m == CHOOSE x \in T : \A y \in T : x <= y IN <<m>> \o F(T \ {m})
                  IN F(S)

Snap(s, cs) ==
  [ num_players |-> s.np, max_prediction |-> s.W, check_distance |-> s.cd,
    checksum_history |-> SortedSeqOf(DOMAIN s.hist), pending_local |-> SortedSeqOf(DOMAIN s.locals),
    sync |-> [ current_frame |-> s.sl.cur, last_confirmed |-> s.sl.last_confirmed, last_saved |-> s.sl.last_saved,
               cells |-> [i \in 1..s.W+1 |-> cs[i-1].frame],
               queues |-> [i \in 1..s.np |-> QSnap(s.sl.queues[i-1])] ] ]

Init == /\ l = 2
        /\ st = ST_New(NP, W, CD, Delay)
        /\ cells = CellsNew(W)
        /\ game = [frame |-> 0, hash |-> HashInit]
        /\ gcount = 0
        /\ drift = <<>>

Next ==
  /\ l <= Len(Rec)
  /\ l' = l + 1
  /\ LET r == Rec[l]
     IN IF r.a = "addonly" /\ r.r # "skip" /\ drift = <<>>
        THEN \* add_local_input calls without advance_frame: results compared, accepted inputs stay pending
             LET res == AddResults(st, r.in, 1)
             IN /\ st' = AddAll(st, r.in, 1)
                /\ drift' = IF res # r.add THEN <<r.n, {"add"}>> ELSE drift
                /\ UNCHANGED <<cells, game, gcount>>
        ELSE IF r.a # "tick" \/ r.r = "skip" \/ drift # <<>>
        THEN UNCHANGED <<st, cells, game, gcount, drift>>
        ELSE LET s1 == AddAll(st, r.in, 1)
                 a  == ST_Advance(s1, cells)
                 ex == IF a[2] = "ok" THEN Exec(cells, game, a[4], 1, <<>>, gcount) ELSE <<cells, game, <<>>, gcount>>
                 res == IF a[2] = "P" THEN "P:" \o a[1].err ELSE a[2]
                 bad == (IF res # r.r THEN {"result"} ELSE {})
                        \cup (IF "add" \in DOMAIN r /\ AddResults(st, r.in, 1) # r.add THEN {"add"} ELSE {})
                        \cup (IF ex[3] # r.q THEN {"requests"} ELSE {})
                        \cup (IF a[2] = "E:MismatchedChecksum" /\ a[3] # r.mm THEN {"mismatched_frames"} ELSE {})
                        \cup (IF a[1].sl.cur # r.cur THEN {"current_frame"} ELSE {})
                        \cup (IF <<ex[2].frame, ex[2].hash>> # r.g THEN {"game"} ELSE {})
                        \cup (IF "sn" \in DOMAIN r /\ Snap(a[1], ex[1]) # r.sn THEN {"snapshot"} ELSE {})
             IN /\ st' = a[1] /\ cells' = ex[1] /\ game' = ex[2] /\ gcount' = ex[4]
                /\ drift' = IF bad # {} THEN <<r.n, bad>> ELSE drift

Spec == Init /\ [][Next]_tvars

Report == l = Len(Rec) + 1 => PrintT(<<"ST-RESULT", ToJson([lines |-> Len(Rec), drift |-> drift])>>)
Accepted == LET d == TLCGet("stats").diameter IN IF d = Len(Rec) THEN TRUE ELSE Print(<<"ST-INCOMPLETE", d>>, FALSE)
=============================================================================
