----------------------------- MODULE Trace_Sys -----------------------------
(***************************************************************************)
(* Conformance: a trace of the REAL sessions (harness detail level 2: full *)
(* internal snapshot and all packets) is replayed through the actions of   *)
(* System.tla.  After every line the specification's observation line, the *)
(* packets it handed to the socket and the projection of its session state *)
(* must equal what the implementation logged.  The first mismatch is kept  *)
(* in `drift`; the trace is always consumed to the end.                    *)
(*                                                                         *)
(* This binds the model that TLC explores exhaustively (MC_*.cfg) to the   *)
(* code: what is model-checked IS the design the code implements, down to  *)
(* queue indices, ack bookkeeping and timer stamps.  A rejection is        *)
(* reported as CONFORMANCE-DRIFT, never as a property violation.           *)
(***************************************************************************)
EXTENDS System, TLCExt, Json, IOUtils

Rec == ndJsonDeserialize(IOEnv.TRACE)

C0 == Rec[1].cfg

TracePeers == C0.peers
TraceNumPlayers == C0.players
TraceWindow == Get(C0, "window", 8)
TraceSparse == Get(C0, "sparse", FALSE)
TracePredDefault == Get(C0, "predictor", "repeat") = "default"
TraceDesync == Get(C0, "desync", 0)
TraceFps == Get(C0, "fps", 60)
TraceTimeout == Get(C0, "timeout", 2000)
TraceNotify == Get(C0, "notify", 500)
TraceMaxBehind == Get(C0, "max_behind", 10)
TraceCatchup == Get(C0, "catchup", 1)
TraceWaitMs == Get(C0, "wait_ms", 0)

VARIABLES l, drift

tvars == <<sysvars, l, drift>>

---------------------------------------------------------------------------
\* packets: harness abstract form  <->  specification message

\* [to/from, id, abs]  ->  <<peer, msg>>
MsgOf(from, to, abs) ==
  LET mg == IF abs[2] = 1 THEN <<from, to>> ELSE <<"foreign">>
      k  == abs[1]
  IN CASE k = "SRq" -> [k |-> "SRq", nonce |-> abs[3], mg |-> mg]
       [] k = "SRp" -> [k |-> "SRp", nonce |-> abs[3], mg |-> mg]
       [] k = "Ack" -> [k |-> "Ack", ack |-> abs[3], mg |-> mg]
       [] k = "QRp" -> [k |-> "QRp", adv |-> abs[3], ping |-> abs[4], mg |-> mg]
       [] k = "QRy" -> [k |-> "QRy", pong |-> abs[3], mg |-> mg]
       [] k = "Ck"  -> [k |-> "Ck", frame |-> abs[3], sum |-> abs[4], mg |-> mg]
       [] k = "KA"  -> [k |-> "KA", mg |-> mg]
       [] k = "In"  -> [k |-> "In", start |-> abs[3], frames |-> abs[4], ack |-> abs[5], dr |-> abs[6],
                        status |-> [i \in 1..Len(abs[7]) |-> [disc |-> abs[7][i][1], last |-> abs[7][i][2]]],
                        ok |-> abs[8], mg |-> mg]
       [] OTHER -> [k |-> "??", mg |-> mg]

AbsOf(m) ==
  LET f == 1
  IN CASE m.k = "SRq" -> <<"SRq", f, m.nonce>>
       [] m.k = "SRp" -> <<"SRp", f, m.nonce>>
       [] m.k = "Ack" -> <<"Ack", f, m.ack>>
       [] m.k = "QRp" -> <<"QRp", f, m.adv, m.ping>>
       [] m.k = "QRy" -> <<"QRy", f, m.pong>>
       [] m.k = "Ck"  -> <<"Ck", f, m.frame, m.sum>>
       [] m.k = "KA"  -> <<"KA", f>>
       [] m.k = "In"  -> <<"In", f, m.start, m.frames, m.ack, m.dr,
                           [i \in 1..Len(m.status) |-> <<m.status[i].disc, m.status[i].last>>], m.ok>>
       [] OTHER -> <<"??">>

\* what the spec sent to `to`, in order, in harness form
SentTo(out, to) ==
  LET idx == SelectSeq([i \in 1..Len(out) |-> i], LAMBDA i : out[i][1] = to)
  IN [j \in 1..Len(idx) |-> AbsOf(out[idx[j]][2])]
LoggedTo(tx, to) ==
  LET idx == SelectSeq([i \in 1..Len(tx) |-> i], LAMBDA i : tx[i][1] = to)
  IN [j \in 1..Len(idx) |-> tx[idx[j]][3]]

---------------------------------------------------------------------------
\* projection of the specification's session state to the hook's P2PSnap

QSnap(q) ==
  [ head |-> q.head, tail |-> q.tail, length |-> q.length, first_frame |-> q.first_frame,
    last_added |-> q.last_added, last_user |-> q.last_user, first_incorrect |-> q.first_incorrect,
    last_requested |-> q.last_requested, delay |-> q.delay, pred_frame |-> q.pred.frame,
    pred_input |-> <<q.pred.input>>, tail_frame |-> q.inputs[q.tail].frame,
    newest_frame |-> q.inputs[PrevPos(q.head)].frame,
    newest_input |-> <<q.inputs[PrevPos(q.head)].input>> ]

ESnap(e, t) ==
  [ handles |-> e.handles, state |-> StateName(e.state), sync_remaining |-> e.sync_remaining,
    nonces |-> Cardinality(e.nonces), notify_sent |-> e.notify_sent, event_sent |-> e.event_sent,
    peer_status |-> [i \in 1..e.np |-> <<e.peer_status[i-1].disc, e.peer_status[i-1].last>>],
    pending_first |-> IF e.pending = <<>> THEN NullFrame ELSE Head(e.pending).frame,
    pending_len |-> Len(e.pending), last_acked |-> e.last_acked.frame,
    last_recv |-> EP_LastRecvFrame(e),
    recv_min |-> IF DOMAIN e.recv = {} THEN NullFrame ELSE MinOf(DOMAIN e.recv),
    recv_len |-> Cardinality(DOMAIN e.recv),
    local_adv |-> e.local_adv, remote_adv |-> e.remote_adv, avg_adv |-> EP_AvgAdv(e), rtt |-> e.rtt,
    age_send |-> t - e.t_send, age_recv |-> t - e.t_recv, age_input_recv |-> t - e.t_input_recv,
    age_quality |-> t - e.t_quality, age_sync_req |-> t - e.t_sync_req,
    shutdown_in |-> e.t_shutdown - t,
    pending_checksums |-> SortedSeq(DOMAIN e.pending_checksums),
    send_queue |-> Len(e.sendq), event_queue |-> Len(e.evq),
    has_remote_magic |-> e.remote_magic # NoMagic ]

SSnap(s, cs, t) ==
  [ num_players |-> s.np, max_prediction |-> s.W, sparse |-> s.sparse,
    disconnect_frame |-> s.disconnect_frame, running |-> s.running,
    status |-> [i \in 1..s.np |-> <<s.status[i-1].disc, s.status[i-1].last>>],
    next_spectator_frame |-> s.next_spec, next_recommended_sleep |-> s.next_sleep,
    frames_ahead |-> s.frames_ahead, evq |-> Len(s.evq),
    pending_local |-> SortedSeq(DOMAIN s.pending_local),
    outgoing |-> LET fs == SortedSeq(DOMAIN s.outgoing)
                 IN [i \in 1..Len(fs) |-> <<fs[i], SortedSeq(DOMAIN s.outgoing[fs[i]])>>],
    last_sent_outgoing |-> s.last_sent_outgoing,
    checksum_history |-> SortedSeq(DOMAIN s.ck_hist), last_sent_checksum |-> s.last_sent_ck,
    sync |-> [ current_frame |-> s.sl.cur, last_confirmed |-> s.sl.last_confirmed,
               last_saved |-> s.sl.last_saved,
               cells |-> [i \in 1..s.W+1 |-> cs[i-1].frame],
               queues |-> [i \in 1..s.np |-> QSnap(s.sl.queues[i-1])] ],
    remotes |-> [i \in 1..Len(s.raddrs) |-> ESnap(s.eps[s.raddrs[i]], t)],
    spectators |-> [i \in 1..Len(s.saddrs) |-> ESnap(s.eps[s.saddrs[i]], t)] ]

SpecSnap(s, t) ==
  [ running |-> s.running, num_players |-> s.np, current_frame |-> s.cur, last_recv_frame |-> s.last_recv,
    max_frames_behind |-> s.max_behind, catchup_speed |-> s.catchup, evq |-> Len(s.evq),
    host_status |-> [i \in 1..s.np |-> <<s.host_status[i-1].disc, s.host_status[i-1].last>>],
    ring |-> [i \in 1..SpectatorBuffer |-> s.ring[i-1][0].frame] ]

\* names of the fields of record a that differ in b (fields missing in b are ignored)
RecDiff(a, b) == {k \in (DOMAIN a) \cap (DOMAIN b) : a[k] # b[k]}

EDiff(es, logged) ==
  IF Len(es) # Len(logged) THEN {<<"endpoint-count">>}
  ELSE UNION {{<<"endpoint", i, k>> : k \in RecDiff(es[i],
                 logged[i] @@ [has_remote_magic |-> logged[i].remote_magic # 0])} : i \in 1..Len(es)}

SnapDiff(sp, sn) ==
  LET top == {<<"sn", k>> : k \in RecDiff([x \in (DOMAIN sp) \ {"sync", "remotes", "spectators"} |-> sp[x]], sn)}
      sy  == {<<"sync", k>> : k \in RecDiff([x \in (DOMAIN sp.sync) \ {"queues"} |-> sp.sync[x]], sn.sync)}
      qs  == UNION {{<<"queue", i, k>> : k \in RecDiff(sp.sync.queues[i], sn.sync.queues[i])} : i \in 1..Len(sp.sync.queues)}
  IN top \cup sy \cup qs \cup EDiff(sp.remotes, sn.remotes) \cup EDiff(sp.spectators, sn.spectators)

\* fields of the observation line compared with the implementation's line
LineFields == {"r", "q", "g", "cur", "conf", "run", "fa", "st", "evq", "buf", "lso", "og",
               "rxi", "rxf", "ntx", "cur0", "g0", "ev", "lrf", "hl", "gt", "fbh", "npl"}

SpecSnapDiff(s, t, sn) ==
  {<<"sn", k>> : k \in RecDiff(SpecSnap(s, t), sn)} \cup EDiff(<<ESnap(s.host, t)>>, <<sn.host>>)

\* a panic of the code and an error of the specification are compared as such (the texts differ)
PanicStr(x) == Len(x) >= 2 /\ SubSeq(x, 1, 2) = "P:"
SameField(k, a, b) == IF k = "r" /\ PanicStr(a) /\ PanicStr(b) THEN TRUE ELSE a = b
LineDiff(sl, rl) == {<<"line", k>> : k \in {x \in LineFields \cap (DOMAIN sl) \cap (DOMAIN rl) : ~SameField(x, sl[x], rl[x])}}

---------------------------------------------------------------------------
Note(r, what) ==
  drift' = IF drift = <<>> /\ what # {} THEN <<r.n, r.a, what>> ELSE drift

\* comparison after a session step of peer p; `out` is what the spec handed to the socket
Compare(r, p, out) ==
  LET ld == LineDiff(lastLine', r)
      td == IF Has(r, "tx")
            THEN {<<"tx", to>> : to \in {x \in PeerIds : SentTo(out, x) # LoggedTo(r.tx, x)}}
            ELSE {}
      sd == IF Has(r, "sn") /\ p \in P2PIds THEN SnapDiff(SSnap(ss'[p], cells'[p], now'), r.sn) ELSE {}
  IN Note(r, ld \cup td \cup sd)

\* the inbox the implementation consumed must be the inbox the specification holds
InboxDiff(r, p) ==
  IF Has(r, "rx") /\ [i \in 1..Len(r.rx) |-> r.rx[i][3]] # [i \in 1..Len(inbox[p]) |-> AbsOf(inbox[p][i][2])]
  THEN {<<"inbox">>} ELSE {}

TraceTick(r) ==
  LET p == r.p
      vals == [i \in 1..Len(r.in) |-> r.in[i][2]]
      pre == InboxDiff(r, p)
  IN /\ TickWith(p, vals)
     /\ LET out == P2P_AdvanceFrame(AddAll(ss[p], ss[p].locals, vals, 1), cells[p], inbox[p], now)[2]
            ld == LineDiff(lastLine', r)
            td == IF Has(r, "tx")
                  THEN {<<"tx", to>> : to \in {x \in PeerIds : SentTo(out, x) # LoggedTo(r.tx, x)}} ELSE {}
            sd == IF Has(r, "sn") THEN SnapDiff(SSnap(ss'[p], cells'[p], now'), r.sn) ELSE {}
        IN Note(r, pre \cup ld \cup td \cup sd)

\* a tick through advance_frame_with_wait_timeout: r.arr = <<yield, from, position (0-based), id>> of the
\* packets that arrived during the wait, r.t1 = the clock when the call returned
TraceTickW(r) ==
  LET p == r.p
      vals == [i \in 1..Len(r.in) |-> r.in[i][2]]
      arrs == [i \in 1..Len(r.arr) |-> <<r.arr[i][1], r.arr[i][2], r.arr[i][3] + 1>>]
      okA  == \A i \in 1..Len(arrs) : arrs[i][3] <= Len(net[<<arrs[i][2], p>>])
  IN IF ~okA \/ r.wait # WaitMs
     THEN /\ UNCHANGED sysvars
          /\ Note(r, {<<"arr">>})
     ELSE /\ TickWaitWith(p, vals, arrs)
          /\ LET out == WaitResult(p, vals, arrs)[2]
                 ld == LineDiff(lastLine', r)
                 td == IF Has(r, "tx")
                       THEN {<<"tx", to>> : to \in {x \in PeerIds : SentTo(out, x) # LoggedTo(r.tx, x)}} ELSE {}
                 sd == IF Has(r, "sn") THEN SnapDiff(SSnap(ss'[p], cells'[p], now'), r.sn) ELSE {}
                 cd == IF now' # r.t1 THEN {<<"clock">>} ELSE {}
             IN Note(r, ld \cup td \cup sd \cup cd)

TracePoll(r) ==
  LET p == r.p
      pre == InboxDiff(r, p)
      res == P2P_Poll(ss[p], inbox[p], now)
      line == ObsSession(res[1], game[p],
                [ a |-> "poll", p |-> p, n |-> 0, t |-> now,
                  r |-> IF res[1].err # "" THEN "P:" \o res[1].err ELSE "ok",
                  rxi |-> RxInputs(inbox[p]), rxf |-> RxFrom(inbox[p]), ntx |-> Len(res[2]),
                  stx |-> StxOf(res[2]), srx |-> SrxOf(p, inbox[p]) ])
  IN /\ ss' = [ss EXCEPT ![p] = res[1]]
     /\ inbox' = [inbox EXCEPT ![p] = <<>>]
     /\ net' = Transmit(net, p, res[2], 1)
     /\ Feed(line)
     /\ UNCHANGED <<cells, game, now, alive, dups>>
     /\ LET ld == LineDiff(line, r)
            td == IF Has(r, "tx")
                  THEN {<<"tx", to>> : to \in {x \in PeerIds : SentTo(res[2], x) # LoggedTo(r.tx, x)}} ELSE {}
            sd == IF Has(r, "sn") THEN SnapDiff(SSnap(res[1], cells[p], now), r.sn) ELSE {}
        IN Note(r, pre \cup ld \cup td \cup sd)

\* events are compared per remote address (the only order the API promises) and, separately,
\* the address-less ones
EvOf(evs, a) == SelectSeq(evs, LAMBDA e : e[1] # "Wait" /\ e[2] = a)
EvNoAddr(evs) == SelectSeq(evs, LAMBDA e : e[1] = "Wait")
EvDiffers(x, y) ==
  \/ Len(x) # Len(y)
  \/ EvNoAddr(x) # EvNoAddr(y)
  \/ \E a \in PeerIds : EvOf(x, a) # EvOf(y, a)

TraceEv(r) ==
  LET p == r.p
      res == P2P_Events(ss[p])
  IN /\ ss' = [ss EXCEPT ![p] = res[1]]
     /\ Feed([a |-> "ev", p |-> p, n |-> 0, t |-> now, r |-> "ok", ev |-> res[2]])
     /\ UNCHANGED <<cells, game, net, inbox, now, alive, dups>>
     /\ Note(r, IF EvDiffers(res[2], r.ev) THEN {<<"ev">>} ELSE {})

TraceNet(r) ==
  LET lk == <<r.from, r.to>>
      k  == r.k + 1
  IN IF ~r.ok \/ k \notin 1..Len(net[lk])
     THEN /\ UNCHANGED sysvars
          /\ Note(r, IF r.ok THEN {<<"net-position">>} ELSE {})
     ELSE /\ CASE r.a = "dlv" ->
                   /\ net' = [net EXCEPT ![lk] = DelAt(@, k)]
                   /\ inbox' = IF alive[lk[2]] THEN [inbox EXCEPT ![lk[2]] = Append(@, <<lk[1], net[lk][k]>>)] ELSE inbox
                   /\ UNCHANGED dups
               [] r.a = "drop" ->
                   /\ net' = [net EXCEPT ![lk] = DelAt(@, k)]
                   /\ UNCHANGED <<inbox, dups>>
               [] OTHER ->
                   /\ net' = [net EXCEPT ![lk] = Append(@, net[lk][k])]
                   /\ UNCHANGED <<inbox, dups>>
          /\ Feed([a |-> r.a, from |-> r.from, to |-> r.to, k |-> r.k, n |-> 0, t |-> now])
          /\ UNCHANGED <<ss, cells, game, now, alive>>
          /\ UNCHANGED drift

TraceClk(r) ==
  /\ now' = now + r.d
  /\ Feed([a |-> "clk", d |-> r.d, n |-> 0, t |-> now + r.d])
  /\ UNCHANGED <<ss, cells, game, net, inbox, alive, dups>>
  /\ Note(r, IF now + r.d # r.t THEN {<<"clock">>} ELSE {})

TraceKill(r) == Kill(r.p) /\ UNCHANGED drift

TraceDisc(r) ==
  LET p == r.p
      res == P2P_DisconnectPlayer(ss[p], r.h, now)
      line == ObsSession(res[1], game[p], [a |-> "disc", p |-> p, h |-> r.h, n |-> 0, t |-> now, r |-> res[2]])
  IN /\ ss' = [ss EXCEPT ![p] = res[1]]
     /\ Feed(line)
     /\ UNCHANGED <<cells, game, net, inbox, now, alive, dups>>
     /\ Note(r, LineDiff(line, r) \cup (IF Has(r, "sn") THEN SnapDiff(SSnap(res[1], cells[p], now), r.sn) ELSE {}))

TraceDly(r) ==
  LET p == r.p
      res == P2P_SetInputDelay(ss[p], r.h, r.d, now)
      line == ObsSession(res[1], game[p],
                [a |-> "dly", p |-> p, h |-> r.h, d |-> r.d, n |-> 0, t |-> now, r |-> res[3], cur0 |-> ss[p].sl.cur])
  IN /\ ss' = [ss EXCEPT ![p] = res[1]]
     /\ net' = Transmit(net, p, res[2], 1)
     /\ Feed(line)
     /\ UNCHANGED <<cells, game, inbox, now, alive, dups>>
     /\ Note(r, LineDiff(line, r)
                \cup (IF Has(r, "tx") THEN {<<"tx", to>> : to \in {x \in PeerIds : SentTo(res[2], x) # LoggedTo(r.tx, x)}} ELSE {})
                \cup (IF Has(r, "sn") THEN SnapDiff(SSnap(res[1], cells[p], now), r.sn) ELSE {}))

TraceTickSpec(r) ==
  LET p == r.p
      pre == InboxDiff(r, p)
      out == SP_AdvanceFrame(ss[p], inbox[p], now)[2]
  IN /\ TickSpecWith(p)
     /\ Note(r, pre \cup LineDiff(lastLine', r)
                \cup (IF Has(r, "tx") THEN {<<"tx", to>> : to \in {x \in PeerIds : SentTo(out, x) # LoggedTo(r.tx, x)}} ELSE {})
                \cup (IF Has(r, "sn") THEN SpecSnapDiff(ss'[p], now', r.sn) ELSE {}))

TracePollSpec(r) ==
  LET p == r.p
      pre == InboxDiff(r, p)
      out == SP_Poll(ss[p], inbox[p], now)[2]
  IN /\ PollSpecWith(p)
     /\ Note(r, pre \cup LineDiff(lastLine', r)
                \cup (IF Has(r, "tx") THEN {<<"tx", to>> : to \in {x \in PeerIds : SentTo(out, x) # LoggedTo(r.tx, x)}} ELSE {})
                \cup (IF Has(r, "sn") THEN SpecSnapDiff(ss'[p], now', r.sn) ELSE {}))

TraceEvSpec(r) ==
  LET p == r.p
      res == SP_Events(ss[p])
  IN /\ ss' = [ss EXCEPT ![p] = res[1]]
     /\ Feed([a |-> "ev", p |-> p, n |-> 0, t |-> now, r |-> "ok", ev |-> res[2]])
     /\ UNCHANGED <<cells, game, net, inbox, now, alive, dups>>
     /\ Note(r, IF res[2] # r.ev THEN {<<"ev">>} ELSE {})

IsPanicLine(r) == Has(r, "r") /\ PanicStr(r.r)
Skip == UNCHANGED sysvars /\ UNCHANGED drift

\* network_stats: a pure query; result and figures must be what the specification computes
TraceStats(r) ==
  LET p   == r.p
      res == IF p \in SpecIds THEN EP_NetworkStats(ss[p].host, now) ELSE P2P_NetworkStats(ss[p], r.h, now)
      bad == (res[1] # r.r) \/ (res[1] = "ok" /\ Has(r, "ns") /\ res[2] # r.ns)
  IN /\ UNCHANGED sysvars
     /\ Note(r, IF bad THEN {<<"stats", res>>} ELSE {})

TraceInit == Init /\ l = 2 /\ drift = <<>>

TraceNext ==
  /\ l <= Len(Rec)
  /\ l' = l + 1
  /\ LET r == Rec[l]
         skip == Has(r, "r") /\ r.r = "skip"
         spec == Has(r, "p") /\ r.p \in SpecIds
     IN IF skip \/ drift # <<>> THEN Skip
        ELSE CASE r.a = "tick" /\ spec -> TraceTickSpec(r)
               [] r.a = "poll" /\ spec -> TracePollSpec(r)
               [] r.a = "ev" /\ spec   -> TraceEvSpec(r)
               [] r.a = "stats" -> IF IsPanicLine(r) THEN Skip ELSE TraceStats(r)
               [] r.a = "tick" /\ Has(r, "wait") -> TraceTickW(r)
               [] r.a = "tick" -> TraceTick(r)
               [] r.a = "poll" -> TracePoll(r)
               [] r.a = "ev"   -> TraceEv(r)
               [] r.a \in {"dlv", "drop", "dup"} -> TraceNet(r)
               [] r.a = "clk"  -> TraceClk(r)
               [] r.a = "kill" -> TraceKill(r)
               [] r.a = "disc" -> TraceDisc(r)
               [] r.a = "dly"  -> TraceDly(r)
               [] OTHER -> Skip

TraceSpec == TraceInit /\ [][TraceNext]_tvars

SysReport ==
  l = Len(Rec) + 1 =>
    PrintT(<<"SYS-RESULT", ToJson([lines |-> Len(Rec), drift |-> drift, viol |-> g.viol])>>)

SysAccepted ==
  LET d == TLCGet("stats").diameter
  IN IF d = Len(Rec) THEN TRUE ELSE Print(<<"SYS-INCOMPLETE", d, Len(Rec)>>, FALSE)
=============================================================================
