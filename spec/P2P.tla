-------------------------------- MODULE P2P --------------------------------
(***************************************************************************)
(* src/sessions/p2p_session.rs as functional operators on a session        *)
(* record: one operator per public API call, private methods as helper     *)
(* operators composed in the order of the Rust statements.  Hash-map       *)
(* iteration is modelled in ascending key order (C17 states that nothing   *)
(* observable may depend on it).  Messages handed to the socket during a   *)
(* call are accumulated in s.out as <<to, msg>>.                           *)
(***************************************************************************)
EXTENDS SyncLayer, Protocol

RecommendationInterval == 60
MinRecommendation      == 3

MapPut(m, k, v) == [x \in (DOMAIN m) \cup {k} |-> IF x = k THEN v ELSE m[x]]
MapDel(m, k)    == [x \in (DOMAIN m) \ {k} |-> m[x]]
EmptyMap        == [x \in {} |-> 0]

\* ascending sequence of a finite set of integers
RECURSIVE SortedSeq(_)
SortedSeq(S) == IF S = {} THEN <<>> ELSE LET m == MinOf(S) IN <<m>> \o SortedSeq(S \ {m})

(* htype: handle -> [t |-> "L"] | [t |-> "R", a |-> addr] | [t |-> "S", a |-> addr] *)
P2P_New(me, np, W, sparse0, predDefault, desync, delay, fps, timeout, notify, htype, now) ==
  LET hs      == DOMAIN htype
      locals  == SortedSeq({h \in hs : htype[h].t = "L"})
      raddrs  == SortedSeq({htype[h].a : h \in {x \in hs : htype[x].t = "R"}})
      saddrs  == SortedSeq({htype[h].a : h \in {x \in hs : htype[x].t = "S"}})
      rh(a)   == SortedSeq({h \in hs : htype[h].t = "R" /\ htype[h].a = a})
      sh(a)   == SortedSeq({h \in hs : htype[h].t = "S" /\ htype[h].a = a})
      addrs   == {raddrs[i] : i \in 1..Len(raddrs)} \cup {saddrs[i] : i \in 1..Len(saddrs)}
      mk(a)   == IF \E i \in 1..Len(raddrs) : raddrs[i] = a
                 THEN EP_Synchronize(EP_New(me, a, rh(a), np, Len(locals), W, timeout, notify, fps, desync, now), now)
                 ELSE EP_Synchronize(EP_New(me, a, sh(a), np, np, W, timeout, notify, fps, desync, now), now)
      sl0     == SL_New(np, W)
      sl1     == [sl0 EXCEPT !.queues = [h \in 0..np-1 |->
                    IF htype[h].t = "L" THEN IQ_SetFrameDelay(sl0.queues[h], delay)[1] ELSE sl0.queues[h]]]
  IN [ me |-> me, np |-> np, W |-> W,
       sparse |-> IF W = 0 /\ sparse0 THEN FALSE ELSE sparse0,
       predDefault |-> predDefault,
       disconnect_frame |-> NullFrame,
       running |-> addrs = {},
       fps |-> fps,
       status |-> [h \in 0..np-1 |-> Stat0],
       next_spec |-> 0, next_sleep |-> 0, frames_ahead |-> 0,
       evq |-> <<>>,
       pending_local |-> EmptyMap,        \* handle -> [frame, val]
       outgoing |-> EmptyMap,             \* frame -> (handle -> val)
       last_sent_outgoing |-> NullFrame,
       desync |-> desync,
       ck_hist |-> EmptyMap, last_sent_ck |-> NullFrame,
       sl |-> sl1,
       locals |-> locals, raddrs |-> raddrs, saddrs |-> saddrs,
       eps |-> [a \in addrs |-> mk(a)],
       htype |-> htype,
       out |-> <<>>, err |-> "" ]

IsRemote(s, a) == \E i \in 1..Len(s.raddrs) : s.raddrs[i] = a
IsSpec(s, a)   == \E i \in 1..Len(s.saddrs) : s.saddrs[i] = a
AllAddrs(s)    == s.raddrs \o s.saddrs

P2P_Fail(s, msg) == IF s.err = "" THEN [s EXCEPT !.err = msg] ELSE s
\* errors of components surface as session errors (a panic of the real code)
P2P_Lift(s) ==
  IF s.err # "" THEN s
  ELSE IF s.sl.err # "" THEN [s EXCEPT !.err = s.sl.err]
  ELSE IF \E a \in DOMAIN s.eps : s.eps[a].err # ""
       THEN [s EXCEPT !.err = s.eps[CHOOSE a \in DOMAIN s.eps : s.eps[a].err # ""].err]
       ELSE s

\* endpoint.send_all_messages(socket)
P2P_Flush(s, a) ==
  LET r == EP_Flush(s.eps[a])
  IN [s EXCEPT !.eps[a] = r[1], !.out = @ \o [i \in 1..Len(r[2]) |-> <<a, r[2][i]>>]]

RECURSIVE P2P_FlushAll(_, _, _)
P2P_FlushAll(s, addrs, i) == IF i > Len(addrs) THEN s ELSE P2P_FlushAll(P2P_Flush(s, addrs[i]), addrs, i + 1)

P2P_ConfirmedFrame(s) ==
  LET c == {s.status[h].last : h \in {x \in 0..s.np-1 : ~s.status[x].disc}}
  IN IF c = {} THEN 2147483647 ELSE MinOf(c)

P2P_PushEvent(s, ev) ==
  LET q == Append(s.evq, ev)
  IN [s EXCEPT !.evq = IF Len(q) > MaxEventQueue THEN SubSeq(q, Len(q) - MaxEventQueue + 1, Len(q)) ELSE q]

\* check_initial_sync
P2P_CheckInitialSync(s) ==
  IF s.running THEN s
  ELSE IF \A a \in DOMAIN s.eps : EP_IsSynchronized(s.eps[a]) THEN [s EXCEPT !.running = TRUE] ELSE s

\* disconnect_player_at_frame
P2P_DisconnectAt(s, h, last_frame, now) ==
  LET ty == s.htype[h]
      s1 == CASE ty.t = "R" ->
                   LET ep == s.eps[ty.a]
                       st == [x \in 0..s.np-1 |->
                                IF \E i \in 1..Len(ep.handles) : ep.handles[i] = x
                                THEN [s.status[x] EXCEPT !.disc = TRUE] ELSE s.status[x]]
                   IN [s EXCEPT !.status = st,
                                !.eps[ty.a] = EP_Disconnect(ep, now),
                                \* (repaired behaviour) the earliest frame of several disconnects is kept
                                !.disconnect_frame = IF s.sl.cur > last_frame + 1
                                                     THEN (IF @ = NullFrame THEN last_frame + 1 ELSE Min2(@, last_frame + 1))
                                                     ELSE @]
              [] ty.t = "S" -> [s EXCEPT !.eps[ty.a] = EP_Disconnect(s.eps[ty.a], now)]
              [] OTHER -> s
  IN P2P_CheckInitialSync(s1)

\* queue_outgoing_local_input
P2P_QueueOutgoing(s, h, frame, val) ==
  IF s.raddrs = <<>> THEN s
  ELSE LET cur == IF frame \in DOMAIN s.outgoing THEN s.outgoing[frame] ELSE EmptyMap
       IN [s EXCEPT !.outgoing = MapPut(s.outgoing, frame, MapPut(cur, h, val))]

LocalSet(s) == {s.locals[i] : i \in 1..Len(s.locals)}

\* next_complete_outgoing_input_frame: frame or NullFrame
P2P_NextComplete(s) ==
  IF s.last_sent_outgoing = NullFrame
  THEN LET ok == {f \in DOMAIN s.outgoing : LocalSet(s) \subseteq DOMAIN s.outgoing[f]}
       IN IF ok = {} THEN NullFrame ELSE MinOf(ok)
  ELSE LET n == s.last_sent_outgoing + 1
       IN IF n \in DOMAIN s.outgoing /\ LocalSet(s) \subseteq DOMAIN s.outgoing[n] THEN n ELSE NullFrame

\* endpoint.send_input for the remote endpoints, each followed by a flush
RECURSIVE P2P_SendToRemotes(_, _, _, _, _)
P2P_SendToRemotes(s, frame, vals, now, i) ==
  IF i > Len(s.raddrs) THEN s
  ELSE LET a == s.raddrs[i]
           s1 == [s EXCEPT !.eps[a] = EP_SendInput(s.eps[a], frame, vals, s.status, now)]
       IN P2P_SendToRemotes(P2P_Flush(s1, a), frame, vals, now, i + 1)

\* send_ready_outgoing_inputs_to_remotes
RECURSIVE P2P_SendReady(_, _)
P2P_SendReady(s, now) ==
  IF s.raddrs = <<>> \/ s.locals = <<>> THEN s
  ELSE LET f == P2P_NextComplete(s)
       IN IF f = NullFrame THEN s
          ELSE LET m    == s.outgoing[f]
                   hs   == SortedSeq(DOMAIN m)                     \* from_inputs: ascending handles
                   vals == [i \in 1..Len(hs) |-> m[hs[i]]]
                   s1   == [s EXCEPT !.outgoing = MapDel(s.outgoing, f)]
                   s2   == P2P_SendToRemotes(s1, f, vals, now, 1)
               IN P2P_SendReady([s2 EXCEPT !.last_sent_outgoing = f], now)

\* register_local_inputs
RECURSIVE P2P_RegisterFrom(_, _, _)
P2P_RegisterFrom(s, now, i) ==
  IF i > Len(s.locals) THEN s
  ELSE LET h == s.locals[i]
       IN IF h \notin DOMAIN s.pending_local
          THEN P2P_RegisterFrom(P2P_Fail(s, "Missing local input while calling advance_frame()."), now, i + 1)
          ELSE LET pi == s.pending_local[h]
                   r  == SL_AddLocalInput(s.sl, h, pi.frame, pi.val)
                   s1 == [s EXCEPT !.sl = r[1]]
                   \* (repaired behaviour) blank frames in front of a delayed first input are queued too
                   RECURSIVE Blanks(_, _)
                   Blanks(x, f) == IF f >= r[2] THEN x ELSE Blanks(P2P_QueueOutgoing(x, h, f, Default), f + 1)
                   s1b == IF SendLeadingBlanks /\ r[2] # NullFrame /\ s1.status[h].last = NullFrame THEN Blanks(s1, 0) ELSE s1
                   s2 == IF r[2] # NullFrame
                         THEN P2P_QueueOutgoing([s1b EXCEPT !.status[h].last = r[2]], h, r[2], pi.val)
                         ELSE s1
               IN P2P_RegisterFrom(s2, now, i + 1)

P2P_RegisterLocalInputs(s, now) == P2P_SendReady(P2P_RegisterFrom(s, now, 1), now)

\* send_confirmed_inputs_to_spectators
RECURSIVE P2P_SendSpecFrame(_, _, _, _, _)
P2P_SendSpecFrame(s, frame, vals, now, i) ==
  IF i > Len(s.saddrs) THEN s
  ELSE LET a == s.saddrs[i]
       IN IF EP_IsRunning(s.eps[a])
          THEN P2P_SendSpecFrame(P2P_Flush([s EXCEPT !.eps[a] = EP_SendInput(s.eps[a], frame, vals, s.status, now)], a),
                                 frame, vals, now, i + 1)
          ELSE P2P_SendSpecFrame(s, frame, vals, now, i + 1)

RECURSIVE P2P_SendToSpectators(_, _, _)
P2P_SendToSpectators(s, confirmed, now) ==
  IF s.saddrs = <<>> \/ s.next_spec > confirmed THEN s
  ELSE LET c    == SL_ConfirmedInputs(s.sl, s.next_spec, s.status)
           ins  == c[2]
           s0   == IF ~c[1] THEN P2P_Fail(s, "confirmed_input: no confirmed input for the requested frame") ELSE s
           \* from_inputs: the frame of the packet is the non-null frame, or NULL if all are null
           real == {ins[i].frame : i \in 1..Len(ins)} \ {NullFrame}
           fr   == IF real = {} THEN NullFrame ELSE MaxOf(real)
           vals == [i \in 1..Len(ins) |-> ins[i].input]
           s1   == P2P_SendSpecFrame(s0, fr, vals, now, 1)
       IN IF s0.err # "" THEN s0
          ELSE P2P_SendToSpectators([s1 EXCEPT !.next_spec = @ + 1], confirmed, now)

\* update_player_disconnects
RECURSIVE P2P_UpdateDisconnects(_, _, _)
P2P_UpdateDisconnects(s, now, h) ==
  IF h >= s.np THEN s
  ELSE LET run   == {a \in {s.raddrs[i] : i \in 1..Len(s.raddrs)} : EP_IsRunning(s.eps[a])}
           qconn == \A a \in run : ~s.eps[a].peer_status[h].disc
           qmin0 == IF run = {} THEN 2147483647 ELSE MinOf({s.eps[a].peer_status[h].last : a \in run})
           lconn == ~s.status[h].disc
           lmin  == s.status[h].last
           qmin  == IF lconn THEN Min2(qmin0, lmin) ELSE qmin0
           s1    == IF ~qconn /\ (lconn \/ lmin > qmin) THEN P2P_DisconnectAt(s, h, qmin, now) ELSE s
       IN P2P_UpdateDisconnects(s1, now, h + 1)

\* adjust_gamestate: <<s, requests>>
RECURSIVE P2P_Resim(_, _, _, _, _)
P2P_Resim(s, reqs, i, count, min_confirmed) ==
  IF i >= count THEN <<s, reqs>>
  ELSE LET r   == SL_SyncInputs(s.sl, s.status, s.predDefault)
           sl1 == r[1]
           doSave == IF s.sparse THEN sl1.cur = min_confirmed ELSE i > 0
           sv  == SL_Save(sl1)
           sl2 == IF doSave THEN sv[1] ELSE sl1
           rq1 == IF doSave THEN Append(reqs, sv[2]) ELSE reqs
           sl3 == [sl2 EXCEPT !.cur = @ + 1]
       IN P2P_Resim([s EXCEPT !.sl = sl3], Append(rq1, <<"A", r[2]>>), i + 1, count, min_confirmed)

P2P_AdjustGamestate(s, cells, first_incorrect, min_confirmed, reqs) ==
  LET cur   == s.sl.cur
      fl    == IF s.sparse THEN s.sl.last_saved ELSE first_incorrect
      s0    == IF ~(fl <= first_incorrect) THEN P2P_Fail(s, "adjust_gamestate: frame_to_load > first_incorrect") ELSE s
      count == cur - fl
      ld    == SL_Load(s0.sl, cells, fl)
      s1    == [s0 EXCEPT !.sl = SL_ResetPrediction(ld[1])]
      r     == P2P_Resim(s1, Append(reqs, ld[2]), 0, count, min_confirmed)
  IN IF ld[1].err # "" THEN <<P2P_Lift([s0 EXCEPT !.sl = ld[1]]), reqs>>
     ELSE IF r[1].sl.cur # cur THEN <<P2P_Fail(r[1], "adjust_gamestate: did not return to the current frame"), r[2]>>
     ELSE r

\* check_last_saved_state: <<s, requests>>
P2P_CheckLastSaved(s, cells, last_saved, confirmed, reqs) ==
  IF s.sl.cur - last_saved >= s.W
  THEN LET r == IF confirmed >= s.sl.cur
                THEN LET sv == SL_Save(s.sl) IN <<[s EXCEPT !.sl = sv[1]], Append(reqs, sv[2])>>
                ELSE P2P_AdjustGamestate(s, cells, last_saved, confirmed, reqs)
           ok == confirmed = NullFrame \/ r[1].sl.last_saved = Min2(confirmed, r[1].sl.cur)
       IN IF r[1].err = "" /\ r[1].sl.err = "" /\ ~ok
          THEN <<P2P_Fail(r[1], "check_last_saved_state: confirmed state not saved"), r[2]>> ELSE r
  ELSE <<s, reqs>>

\* handle_rollback_and_save: <<s, requests>>
P2P_HandleRollbackAndSave(s, cells, confirmed, reqs) ==
  LET fi == SL_CheckConsistency(s.sl, s.disconnect_frame)
      r1 == IF fi # NullFrame
            THEN LET a == P2P_AdjustGamestate(s, cells, fi, confirmed, reqs)
                 IN <<[a[1] EXCEPT !.disconnect_frame = NullFrame], a[2]>>
            ELSE <<s, reqs>>
      s1 == r1[1]
      last_saved == s1.sl.last_saved
  IN IF s1.err # "" \/ s1.sl.err # "" THEN <<P2P_Lift(s1), r1[2]>>
     ELSE IF s1.sparse THEN P2P_CheckLastSaved(s1, cells, last_saved, confirmed, r1[2])
     ELSE LET sv == SL_Save(s1.sl) IN <<[s1 EXCEPT !.sl = sv[1]], Append(r1[2], sv[2])>>

\* advance_rollback_frame: <<s, requests>>
P2P_AdvanceRollback(s, cells, reqs, now) ==
  LET confirmed == P2P_ConfirmedFrame(s)
      r1 == P2P_HandleRollbackAndSave(s, cells, confirmed, reqs)
      s1 == r1[1]
  IN IF s1.err # "" THEN r1
     ELSE
      LET s2 == P2P_SendToSpectators(s1, confirmed, now)
          s3 == [s2 EXCEPT !.sl = SL_SetLastConfirmed(s2.sl, confirmed, s2.sparse)]
          s4 == P2P_RegisterLocalInputs(s3, now)
          ahead == IF s4.sl.last_confirmed = NullFrame THEN s4.sl.cur ELSE s4.sl.cur - s4.sl.last_confirmed
      IN IF s2.err # "" \/ s3.sl.err # "" \/ s4.err # "" \/ s4.sl.err # "" THEN <<P2P_Lift(s4), r1[2]>>
         ELSE IF ahead < s4.W
         THEN LET si == SL_SyncInputs(s4.sl, s4.status, s4.predDefault)
                  s5 == [s4 EXCEPT !.sl = [si[1] EXCEPT !.cur = @ + 1], !.pending_local = EmptyMap]
              IN <<s5, Append(r1[2], <<"A", si[2]>>)>>
         ELSE <<s4, r1[2]>>

\* advance_lockstep_frame: <<s, requests>>
P2P_AdvanceLockstep(s, reqs, now) ==
  LET s1 == P2P_RegisterLocalInputs(s, now)
      gf == s1.sl.cur
      r  == IF P2P_ConfirmedFrame(s1) >= gf
            THEN LET c   == SL_ConfirmedInputs(s1.sl, gf, s1.status)
                     ins == [i \in 1..s1.np |->
                               IF c[2][i].frame = NullFrame THEN <<c[2][i].input, Disconnected>>
                               ELSE <<c[2][i].input, Confirmed>>]
                     s2  == IF ~c[1] THEN P2P_Fail(s1, "confirmed_input: no confirmed input for the requested frame") ELSE s1
                 IN <<[s2 EXCEPT !.sl.cur = @ + 1, !.pending_local = EmptyMap], Append(reqs, <<"A", ins>>)>>
            ELSE <<s1, reqs>>
      s3 == r[1]
      bk == Min2(P2P_ConfirmedFrame(s3), s3.sl.cur - 1)
      s4 == P2P_SendToSpectators(s3, bk, now)
  IN IF s3.err # "" THEN r
     ELSE <<[s4 EXCEPT !.sl = SL_SetLastConfirmed(s4.sl, bk, s4.sparse)], r[2]>>

P2P_TrimEvents(s) ==
  LET n == Len(s.evq)
  IN IF n > MaxEventQueue THEN [s EXCEPT !.evq = SubSeq(@, n - MaxEventQueue + 1, n)] ELSE s

\* max_frame_advantage / check_wait_recommendation
P2P_MaxFrameAdvantage(s) ==
  LET c == {EP_AvgAdv(s.eps[a]) : a \in {x \in {s.raddrs[i] : i \in 1..Len(s.raddrs)} :
                 \E j \in 1..Len(s.eps[x].handles) : ~s.status[s.eps[x].handles[j]].disc}}
  IN IF c = {} THEN 0 ELSE MaxOf(c)

P2P_CheckWaitRecommendation(s) ==
  LET fa == P2P_MaxFrameAdvantage(s)
      s1 == [s EXCEPT !.frames_ahead = fa]
  IN IF s1.sl.cur > s1.next_sleep /\ fa >= MinRecommendation
     THEN P2P_TrimEvents([s1 EXCEPT !.next_sleep = s1.sl.cur + RecommendationInterval,
                                    !.evq = Append(@, <<"Wait", fa>>)])   \* capped (repo commit 47bca96)
     ELSE s1

\* check_checksum_send_interval
RECURSIVE P2P_SendCk(_, _, _, _, _)
P2P_SendCk(s, frame, sum, now, i) ==
  IF i > Len(s.raddrs) THEN s
  ELSE P2P_SendCk([s EXCEPT !.eps[s.raddrs[i]] = EP_SendChecksumReport(@, frame, sum, now)], frame, sum, now, i + 1)

P2P_CheckChecksumSend(s, cells, now) ==
  LET interval == s.desync
      fts == IF s.last_sent_ck = NullFrame THEN interval ELSE s.last_sent_ck + interval
  IN IF fts <= s.sl.last_confirmed
     THEN LET a == SL_SavedByFrame(s.W, cells, fts)
              b == IF a # -1 THEN a ELSE SL_LatestSavedInRange(s.W, cells, fts, s.sl.last_confirmed)
          IN IF b = -1 THEN s
             ELSE LET cf == cells[b].frame
                      cs == cells[b].hash
                      s1 == P2P_SendCk(s, cf, cs, now, 1)
                      h1 == MapPut(s1.ck_hist, cf, cs)
                      h2 == IF Cardinality(DOMAIN h1) > MaxChecksumHistory
                            THEN LET keep == cf - (MaxChecksumHistory - 1) * interval
                                 IN [x \in {y \in DOMAIN h1 : y >= keep} |-> h1[x]]
                            ELSE h1
                  IN [s1 EXCEPT !.last_sent_ck = cf, !.ck_hist = h2]
     ELSE s

\* compare_local_checksums_against_peers
RECURSIVE P2P_CompareCk(_, _)
P2P_CompareCk(s, i) ==
  IF i > Len(s.raddrs) THEN P2P_TrimEvents(s)
  ELSE LET a  == s.raddrs[i]
           pc == s.eps[a].pending_checksums
           chk == {f \in DOMAIN pc : f < s.sl.last_confirmed /\ f \in DOMAIN s.ck_hist}
           bad == SortedSeq({f \in chk : s.ck_hist[f] # pc[f]})
           evs == [j \in 1..Len(bad) |-> <<"Desy", a, bad[j], s.ck_hist[bad[j]], pc[bad[j]]>>]
       IN P2P_CompareCk([s EXCEPT !.evq = @ \o evs,
                                  !.eps[a].pending_checksums = [x \in (DOMAIN pc) \ chk |-> pc[x]]], i + 1)

\* handle_event
P2P_HandleEvent(s, ev, handles, addr, now) ==
  LET k == ev[1]
      s1 ==
        CASE k = "Sing" -> [s EXCEPT !.evq = Append(@, <<"Sing", addr, ev[2], ev[3]>>)]
          [] k = "Intr" -> [s EXCEPT !.evq = Append(@, <<"Intr", addr, ev[2]>>)]
          [] k = "Resu" -> [s EXCEPT !.evq = Append(@, <<"Resu", addr>>)]
          [] k = "Sed"  -> [P2P_CheckInitialSync(s) EXCEPT !.evq = Append(@, <<"Sed", addr>>)]
          [] k = "Disc" ->
               LET RECURSIVE D(_, _)
                   D(x, i) == IF i > Len(handles) THEN x
                              ELSE LET h == handles[i]
                                       lf == IF h < x.np THEN x.status[h].last ELSE NullFrame
                                   IN D(P2P_DisconnectAt(x, h, lf, now), i + 1)
               IN [D(s, 1) EXCEPT !.evq = Append(@, <<"Disc", addr>>)]
          [] k = "Input" ->
               LET f == ev[2]  h == ev[3]  v == ev[4]
               IN IF ~(h < s.np) THEN P2P_Fail(s, "handle_event: input of a non-player")
                  ELSE IF s.status[h].disc THEN s
                  ELSE LET crf == s.status[h].last
                           s2  == IF ~(crf = NullFrame \/ crf + 1 = f)
                                  THEN P2P_Fail(s, "handle_event: input out of sequence") ELSE s
                       IN [s2 EXCEPT !.status[h].last = f, !.sl = SL_AddRemoteInput(s2.sl, h, f, v)]
          [] OTHER -> s
      n == Len(s1.evq)
  IN IF n > MaxEventQueue THEN [s1 EXCEPT !.evq = SubSeq(@, n - MaxEventQueue + 1, n)] ELSE s1

\* poll_remote_clients
RECURSIVE P2P_HandleInbox(_, _, _, _)
P2P_HandleInbox(s, inbox, now, i) ==
  IF i > Len(inbox) THEN s
  ELSE LET from == inbox[i][1]
           m    == inbox[i][2]
       IN IF from \in DOMAIN s.eps
          THEN P2P_HandleInbox([s EXCEPT !.eps[from] = EP_Handle(@, m, now)], inbox, now, i + 1)
          ELSE P2P_HandleInbox(s, inbox, now, i + 1)

\* endpoint.poll for every endpoint (remotes, then spectators): <<s, [<<event, handles, addr>>]>>
RECURSIVE P2P_PollEndpoints(_, _, _, _, _)
P2P_PollEndpoints(s, addrs, now, i, acc) ==
  IF i > Len(addrs) THEN <<s, acc>>
  ELSE LET a == addrs[i]
           r == EP_Poll(s.eps[a], s.status, now)
           evs == [j \in 1..Len(r[2]) |-> <<r[2][j], r[1].handles, a>>]
       IN P2P_PollEndpoints([s EXCEPT !.eps[a] = r[1]], addrs, now, i + 1, acc \o evs)

RECURSIVE P2P_HandleEvents(_, _, _, _)
P2P_HandleEvents(s, evs, now, i) ==
  IF i > Len(evs) THEN s
  ELSE P2P_HandleEvents(P2P_HandleEvent(s, evs[i][1], evs[i][2], evs[i][3], now), evs, now, i + 1)

P2P_PollInner(s, inbox, now) ==
  LET s1 == P2P_HandleInbox(s, inbox, now, 1)
      s2 == [s1 EXCEPT !.eps = [a \in DOMAIN s1.eps |->
               IF IsRemote(s1, a) /\ EP_IsRunning(s1.eps[a]) THEN EP_UpdateLocalAdv(s1.eps[a], s1.sl.cur)
               ELSE s1.eps[a]]]
      r  == P2P_PollEndpoints(s2, AllAddrs(s2), now, 1, <<>>)
      s3 == P2P_HandleEvents(r[1], r[2], now, 1)
  IN P2P_Lift(P2P_FlushAll(s3, AllAddrs(s3), 1))

\* public: poll_remote_clients -> <<s, out>>
P2P_Poll(s, inbox, now) ==
  LET s1 == P2P_PollInner([s EXCEPT !.out = <<>>], inbox, now)
  IN <<[s1 EXCEPT !.out = <<>>], s1.out>>

\* public: add_local_input -> <<s, result>>
P2P_AddLocalInput(s, h, v) ==
  IF h \notin LocalSet(s) THEN <<s, "E:InvalidRequest">>
  ELSE <<[s EXCEPT !.pending_local = MapPut(@, h, [frame |-> s.sl.cur, val |-> v])], "ok">>

\* advance_frame_after_poll: <<s, result, requests>>
P2P_AdvanceAfterPoll(s, cells, now) ==
  IF ~s.running THEN <<s, "E:NotSynchronized", <<>>>>
  ELSE IF ~(LocalSet(s) \subseteq DOMAIN s.pending_local) THEN <<s, "E:InvalidRequest", <<>>>>
  ELSE
    LET s1 == IF s.desync > 0 THEN P2P_CompareCk(P2P_CheckChecksumSend(s, cells, now), 1) ELSE s
        lock == s1.W = 0
        sv   == SL_Save(s1.sl)
        s2   == IF s1.sl.cur = 0 /\ ~lock THEN [s1 EXCEPT !.sl = sv[1]] ELSE s1
        rq   == IF s1.sl.cur = 0 /\ ~lock THEN <<sv[2]>> ELSE <<>>
        s3   == P2P_UpdateDisconnects(s2, now, 0)
        r    == IF lock THEN P2P_AdvanceLockstep(s3, rq, now) ELSE P2P_AdvanceRollback(s3, cells, rq, now)
        s4   == P2P_Lift(r[1])
    IN IF s4.err # "" THEN <<s4, "P", r[2]>>
       ELSE <<P2P_CheckWaitRecommendation(s4), "ok", r[2]>>

\* public: advance_frame -> <<s, out, result, requests>>
P2P_AdvanceFrame(s, cells, inbox, now) ==
  LET s1 == P2P_PollInner([s EXCEPT !.out = <<>>], inbox, now)
      r  == IF s1.err # "" THEN <<s1, "P", <<>>>> ELSE P2P_AdvanceAfterPoll(s1, cells, now)
      s2 == P2P_Lift(r[1])
  IN <<[s2 EXCEPT !.out = <<>>], s2.out, IF s2.err # "" THEN "P" ELSE r[2], r[3]>>

\* advance_frame_with_wait_timeout(W ms), the loop `while Instant::now() < deadline` at time t0 + j.
\* arr[i] (i \in 1..W) = the packets <<from, msg>> that reach the socket while the call yields for the
\* i-th time (the clock advances by one millisecond per yield).  -> <<s, result, requests, yields taken>>
RECURSIVE P2P_WaitLoop(_, _, _, _, _, _, _)
P2P_WaitLoop(s, cells, arr, t0, W, j, first) ==
  IF j >= W THEN <<s, "ok", first, W>>
  ELSE LET s1 == P2P_PollInner(s, IF j = 0 THEN <<>> ELSE arr[j], t0 + j)
       IN IF s1.err # "" THEN <<s1, "P", <<>>, j>>
          ELSE IF P2P_ConfirmedFrame(s1) >= s1.sl.cur      \* lockstep_current_frame_confirmed
               THEN LET r == P2P_AdvanceAfterPoll(s1, cells, t0 + j) IN <<r[1], r[2], r[3], j>>
               ELSE P2P_WaitLoop(s1, cells, arr, t0, W, j + 1, first)

\* public: advance_frame_with_wait_timeout -> <<s, out, result, requests, yields taken>>
\* (identical to advance_frame unless the session is in lockstep mode, the first attempt stalled and W > 0)
P2P_AdvanceFrameWait(s, cells, inbox, now, W, arr) ==
  LET s1 == P2P_PollInner([s EXCEPT !.out = <<>>], inbox, now)
      r  == IF s1.err # "" THEN <<s1, "P", <<>>>> ELSE P2P_AdvanceAfterPoll(s1, cells, now)
      s2 == P2P_Lift(r[1])
      wait == s2.err = "" /\ r[2] = "ok" /\ s2.W = 0 /\ r[3] = <<>> /\ W > 0
      w  == IF wait THEN P2P_WaitLoop(s2, cells, arr, now, W, 0, r[3]) ELSE <<s2, r[2], r[3], 0>>
      s3 == P2P_Lift(w[1])
  IN <<[s3 EXCEPT !.out = <<>>], s3.out, IF s3.err # "" THEN "P" ELSE w[2], w[3], w[4]>>

\* public: disconnect_player -> <<s, result>>
P2P_DisconnectPlayer(s, h, now) ==
  IF h \notin DOMAIN s.htype THEN <<s, "E:InvalidRequest">>
  ELSE CASE s.htype[h].t = "L" -> <<s, "E:InvalidRequest">>
         [] s.htype[h].t = "R" ->
              IF ~s.status[h].disc THEN <<P2P_DisconnectAt(s, h, s.status[h].last, now), "ok">>
              ELSE <<s, "E:InvalidRequest">>
         [] OTHER -> <<P2P_DisconnectAt(s, h, NullFrame, now), "ok">>

\* public: set_input_delay -> <<s, out, result>>
P2P_SetInputDelay(s, h, d, now) ==
  IF h \notin DOMAIN s.htype \/ s.htype[h].t # "L" THEN <<s, <<>>, "E:InvalidRequest">>
  ELSE LET r  == SL_SetFrameDelay(s.sl, h, d)
           RECURSIVE F(_, _)
           F(x, i) == IF i > Len(r[2]) THEN x
                      ELSE F(P2P_QueueOutgoing([x EXCEPT !.status[h].last = r[2][i].frame], h, r[2][i].frame, r[2][i].input), i + 1)
           s1 == F([s EXCEPT !.sl = r[1], !.out = <<>>], 1)
           s2 == P2P_Lift(P2P_SendReady(s1, now))
       IN <<[s2 EXCEPT !.out = <<>>], s2.out, IF s2.err # "" THEN "P" ELSE "ok">>

\* public: events
P2P_Events(s) == <<[s EXCEPT !.evq = <<>>], s.evq>>

\* public: network_stats
P2P_NetworkStats(s, h, now) ==
  IF h \in DOMAIN s.htype /\ s.htype[h].t \in {"R", "S"} THEN EP_NetworkStats(s.eps[s.htype[h].a], now)
  ELSE <<"E:InvalidRequest", <<>>>>

\* the user executes a request list: <<cells, game>>; game = [frame, hash]
RECURSIVE ExecRequests(_, _, _, _, _)
ExecRequests(W, cells, game, reqs, i) ==
  IF i > Len(reqs) THEN <<cells, game>>
  ELSE LET rq == reqs[i]
       IN CASE rq[1] = "S" ->
                 ExecRequests(W, [cells EXCEPT ![CellSlot(W, rq[2])] = [frame |-> rq[2], hash |-> game.hash]],
                              game, reqs, i + 1)
            [] rq[1] = "L" ->
                 ExecRequests(W, cells, [frame |-> cells[CellSlot(W, rq[2])].frame,
                                         hash |-> cells[CellSlot(W, rq[2])].hash], reqs, i + 1)
            [] OTHER ->
                 ExecRequests(W, cells, [frame |-> game.frame + 1, hash |-> Chain(game.hash, rq[2])], reqs, i + 1)
=============================================================================
