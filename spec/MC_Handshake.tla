--------------------------- MODULE MC_Handshake ---------------------------
(***************************************************************************)
(* The synchronisation handshake of two UdpProtocol endpoints, built from  *)
(* the operators of Protocol.tla (synchronize, send_sync_request,          *)
(* on_sync_request, on_sync_reply, the 200 ms retry of poll()).  The       *)
(* environment loses and duplicates packets within a budget, delivers in   *)
(* any order, and injects stray replies: a nonce never issued, a nonce     *)
(* already consumed, a reply with a foreign magic number.                  *)
(*                                                                         *)
(* Safety (C12): an endpoint is Running exactly when it has seen as many   *)
(*   matched request/reply round trips as it announces (5); its event word *)
(*   is Synchronizing(1)..Synchronizing(4) Synchronized; strays never count*)
(* Liveness (C05/C12): the handshake completes under any loss pattern that *)
(*   eventually lets packets through.                                      *)
(***************************************************************************)
EXTENDS Protocol

CONSTANTS Cap, FaultBudget, StrayBudget, RetryBudget

VARIABLES ea, eb, ab, ba, faults, strays, retries,
          wordA, wordB,        \* events each endpoint has emitted (ghost)
          trips                \* ghost: matched round trips per endpoint: nonce issued by it, answered once

hvars == <<ea, eb, ab, ba, faults, strays, retries, wordA, wordB, trips>>

Start(me, peer) == EP_Synchronize(EP_New(me, peer, <<peer>>, 2, 1, 2, 2000, 500, 60, 0, 0), 0)

Init ==
  /\ LET a == EP_Flush(Start(0, 1))  b == EP_Flush(Start(1, 0))
     IN ea = a[1] /\ eb = b[1] /\ ab = a[2] /\ ba = b[2]
  /\ faults = FaultBudget /\ strays = StrayBudget /\ retries = RetryBudget
  /\ wordA = <<>> /\ wordB = <<>>
  /\ trips = [x \in {0, 1} |-> 0]

Room(q, n) == Len(q) + n <= Cap

\* endpoint e (index me) handles message m; replies go to `outq`
Handle(e, m) ==
  LET e1 == EP_Handle(e, m, 0)
      good == m.k = "SRp" /\ e.state = "Sync" /\ m.nonce \in e.nonces /\ (e.remote_magic = NoMagic \/ m.mg = e.remote_magic)
      r  == EP_Flush([e1 EXCEPT !.evq = <<>>])
  IN [ep |-> r[1], out |-> r[2], evs |-> e1.evq, good |-> good]

DeliverToB(k) ==
  /\ k \in 1..Len(ab)
  /\ LET h == Handle(eb, ab[k])
     IN /\ eb' = h.ep
        /\ ba' = IF Room(ba, Len(h.out)) THEN ba \o h.out ELSE ba
        /\ wordB' = wordB \o h.evs
        /\ trips' = IF h.good THEN [trips EXCEPT ![1] = @ + 1] ELSE trips
  /\ ab' = SubSeq(ab, 1, k - 1) \o SubSeq(ab, k + 1, Len(ab))
  /\ UNCHANGED <<ea, faults, strays, retries, wordA>>

DeliverToA(k) ==
  /\ k \in 1..Len(ba)
  /\ LET h == Handle(ea, ba[k])
     IN /\ ea' = h.ep
        /\ ab' = IF Room(ab, Len(h.out)) THEN ab \o h.out ELSE ab
        /\ wordA' = wordA \o h.evs
        /\ trips' = IF h.good THEN [trips EXCEPT ![0] = @ + 1] ELSE trips
  /\ ba' = SubSeq(ba, 1, k - 1) \o SubSeq(ba, k + 1, Len(ba))
  /\ UNCHANGED <<eb, faults, strays, retries, wordB>>

\* the retry timer of poll(): another sync request while Synchronizing
RetryA ==
  /\ ea.state = "Sync" /\ retries > 0 /\ Room(ab, 1)
  /\ LET r == EP_Flush(EP_SendSyncRequest(ea, 0)) IN ea' = r[1] /\ ab' = ab \o r[2]
  /\ retries' = retries - 1
  /\ UNCHANGED <<eb, ba, faults, strays, wordA, wordB, trips>>
RetryB ==
  /\ eb.state = "Sync" /\ retries > 0 /\ Room(ba, 1)
  /\ LET r == EP_Flush(EP_SendSyncRequest(eb, 0)) IN eb' = r[1] /\ ba' = ba \o r[2]
  /\ retries' = retries - 1
  /\ UNCHANGED <<ea, ab, faults, strays, wordA, wordB, trips>>

Lose ==
  /\ faults > 0 /\ faults' = faults - 1
  /\ \/ \E k \in 1..Len(ab) : ab' = SubSeq(ab, 1, k - 1) \o SubSeq(ab, k + 1, Len(ab)) /\ UNCHANGED ba
     \/ \E k \in 1..Len(ba) : ba' = SubSeq(ba, 1, k - 1) \o SubSeq(ba, k + 1, Len(ba)) /\ UNCHANGED ab
  /\ UNCHANGED <<ea, eb, strays, retries, wordA, wordB, trips>>

Duplicate ==
  /\ faults > 0 /\ faults' = faults - 1
  /\ \/ \E k \in 1..Len(ab) : Room(ab, 1) /\ ab' = Append(ab, ab[k]) /\ UNCHANGED ba
     \/ \E k \in 1..Len(ba) : Room(ba, 1) /\ ba' = Append(ba, ba[k]) /\ UNCHANGED ab
  /\ UNCHANGED <<ea, eb, strays, retries, wordA, wordB, trips>>

\* stray replies towards A: never-issued nonce, an already consumed nonce, foreign magic
Stray ==
  /\ strays > 0 /\ strays' = strays - 1 /\ Room(ba, 1)
  /\ \E kind \in {"unissued", "consumed", "foreign"} :
       LET used == (1..ea.nonce_ctr) \ ea.nonces
           n == CASE kind = "unissued" -> ea.nonce_ctr + 7
                  [] kind = "consumed" -> IF used = {} THEN ea.nonce_ctr + 7 ELSE CHOOSE x \in used : TRUE
                  [] OTHER -> IF ea.nonces = {} THEN 1 ELSE CHOOSE x \in ea.nonces : TRUE
           mg == IF kind = "foreign" /\ ea.remote_magic # NoMagic THEN <<"foreign">> ELSE <<1, 0>>
       IN ba' = Append(ba, [k |-> "SRp", nonce |-> n, mg |-> mg])
  /\ UNCHANGED <<ea, eb, ab, faults, retries, wordA, wordB, trips>>

Next == (\E k \in 1..Cap : DeliverToA(k) \/ DeliverToB(k)) \/ RetryA \/ RetryB \/ Lose \/ Duplicate \/ Stray

\* fairness: head-of-line delivery and the retry timer
Spec == Init /\ [][Next]_hvars
        /\ WF_hvars(DeliverToA(1)) /\ WF_hvars(DeliverToB(1))
        /\ WF_hvars(RetryA) /\ WF_hvars(RetryB)

---------------------------------------------------------------------------
WordOK(w, e) ==
  /\ \A i \in 1..Len(w) : i <= NumSyncPackets - 1 => w[i] = <<"Sing", NumSyncPackets, i>>
  /\ Len(w) <= NumSyncPackets
  /\ Len(w) = NumSyncPackets => w[NumSyncPackets] = <<"Sed">>
  /\ (e.state = "Run") = (Len(w) = NumSyncPackets)

\* Running exactly when 5 matched round trips were seen; strays / duplicates never count
RunningIffFullHandshake ==
  /\ (ea.state = "Run") = (trips[0] = NumSyncPackets)
  /\ (eb.state = "Run") = (trips[1] = NumSyncPackets)
  /\ trips[0] <= NumSyncPackets /\ trips[1] <= NumSyncPackets
  /\ ea.sync_remaining = NumSyncPackets - trips[0] /\ eb.sync_remaining = NumSyncPackets - trips[1]

EventsWellFormed == WordOK(wordA, ea) /\ WordOK(wordB, eb)
NoErr == ea.err = "" /\ eb.err = ""

\* with retries left when the faults are over, both sides get synchronized
Completes == <>((ea.state = "Run" /\ eb.state = "Run") \/ retries = 0)
=============================================================================
