-------------------------------- MODULE Wire --------------------------------
(***************************************************************************)
(* The datagram layer (src/network/messages.rs serialised by bincode 1.3   *)
(* with its default options, as src/network/udp_socket.rs does) as a       *)
(* grammar over byte sequences.                                            *)
(*                                                                         *)
(*   datagram  = magic:u16 tag:u32 body(tag)          all little endian    *)
(*   tag 0 SyncRequest    nonce:u32                                        *)
(*   tag 1 SyncReply      nonce:u32                                        *)
(*   tag 2 Input          n:u64 (bool i32)^n  bool  i32  i32  m:u64 u8^m   *)
(*   tag 3 InputAck       i32                                              *)
(*   tag 4 QualityReport  i16 u128                                         *)
(*   tag 5 QualityReply   u128                                             *)
(*   tag 6 ChecksumReport u128 i32                                         *)
(*   tag 7 KeepAlive                                                       *)
(*   bool = one byte, 0 or 1; anything else is an error.                   *)
(*                                                                         *)
(* bincode's encoding is canonical: the bytes a successful parse consumes  *)
(* ARE the encoding of the parsed message, so the parser is specified by   *)
(* the number of bytes it consumes (WireLen) and "the message" is that     *)
(* prefix.  Bytes after the message are ignored (bincode::deserialize      *)
(* allows trailing bytes); a datagram that ends inside the message, names  *)
(* an unknown variant or carries a bool other than 0/1 is no message at    *)
(* all and the socket must drop it.  The receive buffer holds BufSize      *)
(* bytes; a longer datagram is cut to BufSize before parsing.  The         *)
(* property does not fix the buffer's size, so for datagrams longer than   *)
(* BufSize either outcome - parsed from the cut or from the whole datagram *)
(* - is allowed (WireAllowed); up to BufSize the grammar decides.          *)
(***************************************************************************)
EXTENDS Integers, Sequences

BufSize == 4096
NoMsg == -1

\* little-endian value of the k bytes at pos, or -1 when it cannot be a length that fits a datagram
\* (a non-zero byte above the second one already exceeds every datagram; keeps TLC's integers exact)
LenAt(b, pos) ==
  IF pos + 7 > Len(b) THEN -1
  ELSE IF \E i \in 2..7 : b[pos + i] # 0 THEN -2
  ELSE b[pos] + 256 * b[pos + 1]

IsBool(x) == x \in {0, 1}

\* number of bytes of the Input body that starts at pos (NoMsg if it is malformed or cut short)
InputBodyLen(b, pos) ==
  LET n == LenAt(b, pos)
  IN IF n < 0 THEN NoMsg
     ELSE LET p1 == pos + 8 + 5 * n            \* disconnect_requested
              p2 == p1 + 1 + 4 + 4             \* length of bytes
          IN IF p2 + 7 > Len(b) THEN NoMsg
             ELSE IF \E i \in 0..(n - 1) : ~IsBool(b[pos + 8 + 5 * i]) THEN NoMsg
             ELSE IF ~IsBool(b[p1]) THEN NoMsg
             ELSE LET m == LenAt(b, p2)
                  IN IF m < 0 \/ p2 + 8 + m - 1 > Len(b) THEN NoMsg
                     ELSE (p2 + 8 + m) - pos

FixedBody(tag) == CASE tag \in {0, 1, 3} -> 4 [] tag = 4 -> 18 [] tag = 5 -> 16 [] tag = 6 -> 20 [] tag = 7 -> 0

\* number of bytes of the message at the head of b, or NoMsg
WireLenRaw(b) ==
  IF Len(b) < 6 THEN NoMsg
  ELSE IF b[3] > 7 \/ b[4] # 0 \/ b[5] # 0 \/ b[6] # 0 THEN NoMsg
  ELSE IF b[3] = 2 THEN LET l == InputBodyLen(b, 7) IN IF l = NoMsg THEN NoMsg ELSE 6 + l
  ELSE IF 6 + FixedBody(b[3]) > Len(b) THEN NoMsg
  ELSE 6 + FixedBody(b[3])

Cut(b) == IF Len(b) > BufSize THEN SubSeq(b, 1, BufSize) ELSE b

\* what the socket hands to the session for datagram b: NoMsg (dropped) or the canonical bytes of one message
WireRecv(b) == LET c == Cut(b) l == WireLenRaw(c) IN IF l = NoMsg THEN <<>> ELSE SubSeq(c, 1, l)
WireAccepts(b) == WireLenRaw(Cut(b)) # NoMsg

WireRecvWhole(b) == LET l == WireLenRaw(b) IN IF l = NoMsg THEN <<>> ELSE SubSeq(b, 1, l)
\* bytes after the message: bincode ignores them; a stricter socket that drops such a datagram is allowed too
Trailing(b) == WireLenRaw(Cut(b)) # NoMsg /\ WireLenRaw(Cut(b)) < Len(b)
WireAllowed(b) == (IF Len(b) <= BufSize THEN {WireRecv(b)} ELSE {WireRecv(b), WireRecvWhole(b)})
                  \cup (IF Trailing(b) THEN {<<>>} ELSE {})

\* a byte sequence is the encoding of a message iff the parser consumes all of it
IsEncoding(b) == WireLenRaw(b) = Len(b)
=============================================================================
