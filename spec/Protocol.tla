----------------------------- MODULE Protocol -----------------------------
(***************************************************************************)
(* src/network/protocol.rs (UdpProtocol) as functional operators on an     *)
(* endpoint record.  `now` is the reading of Instant::now() (milliseconds, *)
(* constant during one public call: the harness only advances the virtual  *)
(* clock between calls).                                                    *)
(*                                                                         *)
(* Abstractions: a packet carries the decoded input frames plus the flag   *)
(* `ok` (payload decodable) instead of compressed bytes - the byte level   *)
(* is Codec.tla; handshake nonces are per-link counters; the magic number  *)
(* of an endpoint is the pair <<owner, peer>>.                             *)
(***************************************************************************)
EXTENDS Integers, Sequences, FiniteSets, TLC, Props, F32

NumSyncPackets      == 5
ShutdownTimer       == 5000
PendingOutputSize   == 128
SyncRetryInterval   == 200
RunningRetryInterval == 200
KeepAliveInterval   == 200
QualityReportInterval == 200
FrameWindowSize     == 30
NoMagic             == <<>>

\* TRUE: the repaired behaviour (repo commit "fix: acknowledge input packets whose delta base is
\* no longer held"): a packet whose delta base was pruned is answered with an InputAck.  FALSE is
\* the pinned behaviour (packet ignored without reply); MC_Link keeps a regression run with FALSE
\* that must exhibit the wedge (definition override in the cfg).
AckUndecodable == TRUE

Stat0 == [disc |-> FALSE, last |-> NullFrame]

\* truncation toward zero, as Rust's integer division / `as i32`
TruncDiv(a, b) == IF a >= 0 THEN a \div b ELSE -((-a) \div b)

EP_New(me, peer, handles, np, nlocal, W, timeout, notify, fps, desync, now) ==
  [ me |-> me, peer |-> peer, np |-> np, handles |-> handles, nlocal |-> nlocal,
    sendq |-> <<>>, evq |-> <<>>,
    state |-> "Init", sync_remaining |-> NumSyncPackets, nonces |-> {}, nonce_ctr |-> 0,
    t_quality |-> now, t_input_recv |-> now,
    notify_sent |-> FALSE, event_sent |-> FALSE,
    timeout |-> timeout, notify |-> notify, t_shutdown |-> now, fps |-> fps,
    remote_magic |-> NoMagic,
    peer_status |-> [h \in 0..np-1 |-> Stat0],
    pending |-> <<>>,                         \* seq of [frame, vals]
    last_acked |-> [frame |-> NullFrame, vals |-> [i \in 1..nlocal |-> Default]],
    W |-> W,
    recv |-> [f \in {NullFrame} |-> [i \in 1..Len(handles) |-> Default]],
    ts_local |-> [i \in 0..FrameWindowSize-1 |-> 0],
    ts_remote |-> [i \in 0..FrameWindowSize-1 |-> 0],
    local_adv |-> 0, remote_adv |-> 0,
    stats_start |-> 0, rtt |-> 0,
    t_send |-> now, t_sync_req |-> now, t_recv |-> now,
    pending_checksums |-> [f \in {} |-> 0],
    desync |-> desync,
    err |-> "", abort |-> FALSE ]

Magic(e) == <<e.me, e.peer>>

MaxOf(S) == CHOOSE m \in S : \A x \in S : x <= m
MinOf(S) == CHOOSE m \in S : \A x \in S : m <= x

EP_LastRecvFrame(e) == IF DOMAIN e.recv = {} THEN NullFrame ELSE MaxOf(DOMAIN e.recv)

EP_IsSynchronized(e) == e.state \in {"Run", "Disc", "Shut"}
EP_IsRunning(e)      == e.state = "Run"

\* queue_message
EP_Queue(e, body, now) ==
  [e EXCEPT !.t_send = now, !.sendq = Append(@, body @@ [mg |-> Magic(e)])]

EP_SendSyncRequest(e, now) ==
  LET n == e.nonce_ctr + 1
  IN EP_Queue([e EXCEPT !.t_sync_req = now, !.nonce_ctr = n, !.nonces = @ \cup {n}],
              [k |-> "SRq", nonce |-> n], now)

EP_Synchronize(e, now) ==
  EP_SendSyncRequest([e EXCEPT !.state = "Sync", !.sync_remaining = NumSyncPackets,
                               !.stats_start = now], now)

EP_Disconnect(e, now) ==
  IF e.state = "Shut" THEN e
  ELSE [e EXCEPT !.state = "Disc", !.t_shutdown = now + ShutdownTimer]

\* update_local_frame_advantage
EP_UpdateLocalAdv(e, local_frame) ==
  IF local_frame = NullFrame \/ EP_LastRecvFrame(e) = NullFrame THEN e
  ELSE LET ping == e.rtt \div 2
           remote_frame == EP_LastRecvFrame(e) + TruncDiv(ping * e.fps, 1000)
       IN [e EXCEPT !.local_adv = remote_frame - local_frame]

Sum30(a) == LET RECURSIVE S(_) S(i) == IF i < 0 THEN 0 ELSE a[i] + S(i - 1) IN S(FrameWindowSize - 1)

\* average_frame_advantage: ((remote_avg - local_avg) / 2.0) as i32, computed in f32 by the code;
\* F32Average (F32.tla) is that computation as an exact integer function of the two window sums
EP_AvgAdv(e) == F32Average(Sum30(e.ts_remote), Sum30(e.ts_local))

\* pop_pending_output
RECURSIVE EP_PopPending(_, _)
EP_PopPending(e, ack) ==
  IF e.pending # <<>> /\ Head(e.pending).frame <= ack
  THEN EP_PopPending([e EXCEPT !.last_acked = Head(e.pending), !.pending = Tail(e.pending)], ack)
  ELSE e

\* send_pending_output; status is the caller's connect-status function
EP_SendPendingOutput(e, status, now) ==
  IF e.pending = <<>> THEN e
  ELSE LET first == Head(e.pending)
           bad   == ~(e.last_acked.frame = NullFrame \/ e.last_acked.frame + 1 = first.frame)
           body  == [k |-> "In", start |-> first.frame,
                     frames |-> [i \in 1..Len(e.pending) |-> e.pending[i].vals],
                     ack |-> EP_LastRecvFrame(e), dr |-> e.state = "Disc",
                     status |-> [i \in 1..e.np |-> status[i-1]], ok |-> TRUE,
                     base |-> e.last_acked.frame]
       IN [EP_Queue(e, body, now) EXCEPT !.err = IF bad THEN "send_pending_output: gap after last acked input" ELSE @]

\* send_input (vals: the bytes of this frame, one value per local player in handle order)
EP_SendInput(e, frame, vals, status, now) ==
  IF e.state # "Run" THEN e
  ELSE LET slot == IF frame >= 0 THEN frame % FrameWindowSize ELSE 15   \* (-1 as usize) % 30
           e1 == [e EXCEPT !.ts_local[slot] = e.local_adv, !.ts_remote[slot] = e.remote_adv]
           e2 == [e1 EXCEPT !.pending = Append(@, [frame |-> frame, vals |-> vals])]
           e3 == IF Len(e2.pending) > PendingOutputSize
                 THEN [e2 EXCEPT !.evq = Append(@, <<"Disc">>)] ELSE e2
       IN EP_SendPendingOutput(e3, status, now)

EP_SendInputAck(e, now) == EP_Queue(e, [k |-> "Ack", ack |-> EP_LastRecvFrame(e)], now)
EP_SendKeepAlive(e, now) == EP_Queue(e, [k |-> "KA"], now)
EP_SendQualityReport(e, now) ==
  EP_Queue([e EXCEPT !.t_quality = now], [k |-> "QRp", adv |-> e.local_adv, ping |-> now], now)
EP_SendChecksumReport(e, frame, sum, now) ==
  EP_Queue(e, [k |-> "Ck", frame |-> frame, sum |-> sum], now)

\* poll: <<endpoint, drained events>>
EP_Poll(e, status, now) ==
  LET e1 ==
    CASE e.state = "Sync" ->
           IF e.t_sync_req + SyncRetryInterval < now THEN EP_SendSyncRequest(e, now) ELSE e
      [] e.state = "Run" ->
           LET a == IF e.t_input_recv + RunningRetryInterval < now
                    THEN [EP_SendPendingOutput(e, status, now) EXCEPT !.t_input_recv = now] ELSE e
               b == IF a.t_quality + QualityReportInterval < now THEN EP_SendQualityReport(a, now) ELSE a
               c == IF b.t_send + KeepAliveInterval < now THEN EP_SendKeepAlive(b, now) ELSE b
               d == IF ~c.notify_sent /\ c.t_recv + c.notify < now
                    THEN [c EXCEPT !.evq = Append(@, <<"Intr", Max2(c.timeout - c.notify, 0)>>),
                                   !.notify_sent = TRUE] ELSE c
           IN IF ~d.event_sent /\ d.t_recv + d.timeout < now
              THEN [d EXCEPT !.evq = Append(@, <<"Disc">>), !.event_sent = TRUE] ELSE d
      [] e.state = "Disc" ->
           IF e.t_shutdown < now THEN [e EXCEPT !.state = "Shut"] ELSE e
      [] OTHER -> e
  IN <<[e1 EXCEPT !.evq = <<>>], e1.evq>>

\* send_all_messages: <<endpoint, messages handed to the socket>>
EP_Flush(e) ==
  IF e.state = "Shut" THEN <<[e EXCEPT !.sendq = <<>>], <<>>>>
  ELSE <<[e EXCEPT !.sendq = <<>>], e.sendq>>

---------------------------------------------------------------------------
\* receiving

EP_OnSyncRequest(e, m, now) == EP_Queue(e, [k |-> "SRp", nonce |-> m.nonce], now)

EP_OnSyncReply(e, m, now) ==
  IF e.state # "Sync" THEN e
  ELSE IF m.nonce \notin e.nonces THEN e
  ELSE LET e1 == [e EXCEPT !.nonces = @ \ {m.nonce}, !.sync_remaining = @ - 1]
       IN IF e1.sync_remaining > 0
          THEN EP_SendSyncRequest(
                 [e1 EXCEPT !.evq = Append(@, <<"Sing", NumSyncPackets, NumSyncPackets - e1.sync_remaining>>)], now)
          ELSE [e1 EXCEPT !.state = "Run", !.evq = Append(@, <<"Sed">>), !.remote_magic = m.mg]

\* the per-frame loop of on_input: frames[i] is the input of frame start+i-1
RECURSIVE EP_TakeFrames(_, _, _, _)
EP_TakeFrames(e, start, frames, i) ==
  IF i > Len(frames) THEN e
  ELSE LET f == start + i - 1
       IN IF f <= EP_LastRecvFrame(e) THEN EP_TakeFrames(e, start, frames, i + 1)
          ELSE IF Len(frames[i]) # Len(e.handles)
               THEN [e EXCEPT !.abort = TRUE]                 \* to_player_inputs failed: return
               ELSE LET vals == frames[i]
                        evs  == [j \in 1..Len(e.handles) |-> <<"Input", f, e.handles[j], vals[j]>>]
                        e1   == [e EXCEPT !.recv = [x \in (DOMAIN e.recv) \cup {f} |-> IF x = f THEN vals ELSE e.recv[x]],
                                          !.evq = @ \o evs]
                    IN EP_TakeFrames(e1, start, frames, i + 1)

EP_OnInput(e, m, now) ==
  IF ~m.dr /\ Len(m.status) # e.np THEN e
  ELSE IF m.start < 0 THEN e
  ELSE
    LET e1 == EP_PopPending(e, m.ack)
        e2 == IF m.dr
              THEN IF e1.state # "Disc" /\ ~e1.event_sent
                   THEN [e1 EXCEPT !.evq = Append(@, <<"Disc">>), !.event_sent = TRUE] ELSE e1
              ELSE [e1 EXCEPT !.peer_status =
                      [h \in 0..e1.np-1 |->
                         [disc |-> m.status[h+1].disc \/ e1.peer_status[h].disc,
                          last |-> Max2(e1.peer_status[h].last, m.status[h+1].last)]]]
        decode_frame == IF EP_LastRecvFrame(e2) = NullFrame THEN NullFrame ELSE m.start - 1
    IN IF decode_frame \notin DOMAIN e2.recv
       THEN (IF AckUndecodable THEN EP_SendInputAck(e2, now) ELSE e2)
       ELSE LET e3 == [e2 EXCEPT !.t_input_recv = now]
            IN IF ~m.ok THEN e3                               \* decode error: packet dropped
               ELSE LET e4 == EP_TakeFrames([e3 EXCEPT !.abort = FALSE], m.start, m.frames, 1)
                    IN IF e4.abort THEN e4
                       ELSE LET e5 == EP_SendInputAck(e4, now)
                                lr == EP_LastRecvFrame(e5)
                            IN [e5 EXCEPT !.recv = [x \in {y \in DOMAIN e5.recv : y >= lr - 2 * e5.W} |-> e5.recv[x]]]

\* (AckUndecodable: see below)
EP_OnInputAck(e, m) == EP_PopPending(e, m.ack)

EP_OnQualityReport(e, m, now) ==
  EP_Queue([e EXCEPT !.remote_adv = m.adv], [k |-> "QRy", pong |-> m.ping], now)

EP_OnQualityReply(e, m, now) == [e EXCEPT !.rtt = IF now >= m.pong THEN now - m.pong ELSE 0]

EP_OnChecksumReport(e, m) ==
  LET interval == IF e.desync > 0 THEN e.desync ELSE 1
      e0 == IF e.desync = 0 THEN [e EXCEPT !.err = "checksum report while desync detection is off"] ELSE e
      pc == IF Cardinality(DOMAIN e0.pending_checksums) >= MaxChecksumHistory
            THEN LET keep == m.frame - (MaxChecksumHistory - 1) * interval
                 IN [x \in {y \in DOMAIN e0.pending_checksums : y >= keep} |-> e0.pending_checksums[x]]
            ELSE e0.pending_checksums
  IN [e0 EXCEPT !.pending_checksums = [x \in (DOMAIN pc) \cup {m.frame} |-> IF x = m.frame THEN m.sum ELSE pc[x]]]

\* handle_message
EP_Handle(e, m, now) ==
  IF e.state = "Shut" THEN e
  ELSE IF e.remote_magic # NoMagic /\ m.mg # e.remote_magic THEN e
  \* (repaired behaviour) only handshake packets before the own handshake has completed
  ELSE IF e.state \in {"Init", "Sync"} /\ m.k \notin {"SRq", "SRp"} THEN e
  ELSE
    LET e1 == [e EXCEPT !.t_recv = now]
        e2 == IF e1.notify_sent /\ e1.state = "Run"
              THEN [e1 EXCEPT !.notify_sent = FALSE, !.evq = Append(@, <<"Resu">>)] ELSE e1
    IN CASE m.k = "SRq" -> EP_OnSyncRequest(e2, m, now)
         [] m.k = "SRp" -> EP_OnSyncReply(e2, m, now)
         [] m.k = "In"  -> EP_OnInput(e2, m, now)
         [] m.k = "Ack" -> EP_OnInputAck(e2, m)
         [] m.k = "QRp" -> EP_OnQualityReport(e2, m, now)
         [] m.k = "QRy" -> EP_OnQualityReply(e2, m, now)
         [] m.k = "Ck"  -> EP_OnChecksumReport(e2, m)
         [] OTHER       -> e2

\* network_stats: <<result code, [ping, send_queue_len, local_behind, remote_behind]>>
EP_NetworkStats(e, now) ==
  IF e.state \notin {"Sync", "Run"} THEN <<"E:NotSynchronized", <<>>>>
  ELSE IF (now - e.stats_start) \div 1000 = 0 THEN <<"E:NotEnoughData", <<>>>>
  ELSE <<"ok", <<e.rtt, Len(e.pending), e.local_adv, e.remote_adv>>>>
=============================================================================
