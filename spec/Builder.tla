------------------------------ MODULE Builder ------------------------------
(***************************************************************************)
(* SessionBuilder as a state machine over call sequences.  The state is    *)
(* the builder's configuration; each call either returns the new builder   *)
(* (Ok) or InvalidRequest (Err, the builder is consumed) - by the rules of *)
(* the DOCUMENTATION (doc comments of src/sessions/builder.rs and docs/),  *)
(* which makes this module the reference validity predicate of C16.        *)
(*                                                                         *)
(* TLC explores every call sequence up to MaxCalls over the small value    *)
(* domains below and prints, for every distinct reachable configuration,   *)
(* the call history that reaches it and the expected result of every       *)
(* possible next call.  The harness (bin/builder.rs) replays each history  *)
(* on the real SessionBuilder, applies each next call, compares the result *)
(* and polls / advances every session it gets under catch_unwind.          *)
(***************************************************************************)
EXTENDS Integers, Sequences, FiniteSets, TLC, Json

CONSTANTS Handles,        \* player handles used by add_player
          PlayerCounts,   \* arguments of with_num_players
          Windows, Delays, FpsValues, Intervals, CheckDistances, BehindValues, CatchupValues,
          MaxCalls

SpectatorBuffer == 60

Types == {"L", "Ra", "Rb", "Sa", "Sc"}    \* Local, Remote(a), Remote(b), Spectator(a), Spectator(c)
IsSpec(t) == t \in {"Sa", "Sc"}

Calls ==
  [c : {"add_player"}, t : Types, h : Handles]
  \cup [c : {"with_num_players"}, n : PlayerCounts]
  \cup [c : {"with_max_prediction_window"}, n : Windows]
  \cup [c : {"with_input_delay"}, n : Delays]
  \cup [c : {"with_sparse_saving_mode"}, b : BOOLEAN]
  \cup [c : {"with_desync_detection_mode"}, n : Intervals \cup {-1}]      \* -1 = Off
  \cup [c : {"with_fps"}, n : FpsValues]
  \cup [c : {"with_check_distance"}, n : CheckDistances]
  \cup [c : {"with_max_frames_behind"}, n : BehindValues]
  \cup [c : {"with_catchup_speed"}, n : CatchupValues]
  \cup [c : {"start_p2p_session", "start_synctest_session", "start_spectator_session"}]

B0 == [ np |-> 2, handles |-> [h \in {} |-> "L"], window |-> 8, delay |-> 0, sparse |-> FALSE,
        desync |-> -1, fps |-> 60, cd |-> 2, behind |-> 10, catchup |-> 1 ]

ValidHandle(t, h, np) == IF IsSpec(t) THEN h >= np ELSE h < np

\* result of a call on builder b: <<"ok", new builder>> | <<"err">> | <<"p2p" / "synctest" / "spectator">>
Apply(b, call) ==
  CASE call.c = "add_player" ->
         IF call.h \in DOMAIN b.handles THEN <<"err">>
         ELSE IF ~ValidHandle(call.t, call.h, b.np) THEN <<"err">>
         ELSE <<"ok", [b EXCEPT !.handles = [x \in (DOMAIN b.handles) \cup {call.h} |->
                                               IF x = call.h THEN call.t ELSE b.handles[x]]]>>
    [] call.c = "with_num_players" ->
         IF call.n = 0 THEN <<"err">>
         ELSE IF \E h \in DOMAIN b.handles : ~ValidHandle(b.handles[h], h, call.n) THEN <<"err">>
         ELSE <<"ok", [b EXCEPT !.np = call.n]>>
    [] call.c = "with_max_prediction_window" -> <<"ok", [b EXCEPT !.window = call.n]>>
    [] call.c = "with_input_delay" -> <<"ok", [b EXCEPT !.delay = call.n]>>
    [] call.c = "with_sparse_saving_mode" -> <<"ok", [b EXCEPT !.sparse = call.b]>>
    [] call.c = "with_desync_detection_mode" -> <<"ok", [b EXCEPT !.desync = call.n]>>
    [] call.c = "with_fps" -> IF call.n = 0 THEN <<"err">> ELSE <<"ok", [b EXCEPT !.fps = call.n]>>
    [] call.c = "with_check_distance" -> <<"ok", [b EXCEPT !.cd = call.n]>>
    [] call.c = "with_max_frames_behind" ->
         IF call.n < 1 \/ call.n >= SpectatorBuffer THEN <<"err">> ELSE <<"ok", [b EXCEPT !.behind = call.n]>>
    [] call.c = "with_catchup_speed" -> IF call.n < 1 THEN <<"err">> ELSE <<"ok", [b EXCEPT !.catchup = call.n]>>
    [] call.c = "start_p2p_session" ->
         IF b.desync = 0 THEN <<"err">>
         ELSE IF \E h \in 0..b.np-1 : h \notin DOMAIN b.handles THEN <<"err">>
         ELSE <<"p2p">>
    [] call.c = "start_synctest_session" ->
         IF b.cd >= b.window THEN <<"err">> ELSE IF b.sparse THEN <<"err">> ELSE <<"synctest">>
    [] OTHER -> <<"spectator">>

VARIABLES b, hist

bvars == <<b, hist>>

Init == b = B0 /\ hist = <<>>

Next == /\ Len(hist) < MaxCalls
        /\ \E call \in Calls : LET r == Apply(b, call)
                               IN r[1] = "ok" /\ b' = r[2] /\ hist' = Append(hist, call)

Spec == Init /\ [][Next]_bvars

SetToSeq(S) == LET RECURSIVE F(_) F(T) == IF T = {} THEN <<>> ELSE LET x == CHOOSE y \in T : TRUE IN <<x>> \o F(T \ {x}) IN F(S)

\* one line per distinct configuration: how to reach it and what every next call must return
CallSeq == SetToSeq(Calls)
Emit == PrintT(<<"BUILDER", ToJson([hist |-> hist,
                                    next |-> [i \in 1..Len(CallSeq) |->
                                                [call |-> CallSeq[i], res |-> Apply(b, CallSeq[i])[1]]] ])>>)
\* the configuration, not the way it was reached, identifies a state
View == b
=============================================================================
