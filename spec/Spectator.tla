------------------------------ MODULE Spectator ------------------------------
(***************************************************************************)
(* src/sessions/p2p_spectator_session.rs as functional operators: the host *)
(* endpoint (Protocol.tla), the 60-slot input ring, the host's connection  *)
(* status as gossiped, catch-up.  Messages handed to the socket during a   *)
(* call are accumulated in s.out as <<to, msg>>.                           *)
(***************************************************************************)
EXTENDS Protocol

NormalSpeed == 1

SP_New(me, host, np, W, timeout, notify, fps, maxBehind, catchup, now) ==
  [ me |-> me, hostAddr |-> host, np |-> np,
    running |-> FALSE,
    ring |-> [i \in 0..SpectatorBuffer-1 |-> [h \in 0..np-1 |-> [frame |-> NullFrame, input |-> Default]]],
    host_status |-> [h \in 0..np-1 |-> Stat0],
    host |-> EP_Synchronize(EP_New(me, host, [i \in 1..np |-> i - 1], np, 1, W, timeout, notify, fps, 0, now), now),
    evq |-> <<>>,
    cur |-> NullFrame, last_recv |-> NullFrame,
    max_behind |-> maxBehind, catchup |-> catchup,
    out |-> <<>>, err |-> "" ]

SP_Fail(s, msg) == IF s.err = "" THEN [s EXCEPT !.err = msg] ELSE s

SP_HandleEvent(s, ev, now) ==
  LET addr == s.hostAddr
      k == ev[1]
      s1 ==
        CASE k = "Sing" -> [s EXCEPT !.evq = Append(@, <<"Sing", addr, ev[2], ev[3]>>)]
          [] k = "Intr" -> [s EXCEPT !.evq = Append(@, <<"Intr", addr, ev[2]>>)]
          [] k = "Resu" -> [s EXCEPT !.evq = Append(@, <<"Resu", addr>>)]
          [] k = "Sed"  -> [s EXCEPT !.running = TRUE, !.evq = Append(@, <<"Sed", addr>>)]
          [] k = "Disc" -> [s EXCEPT !.host = EP_Disconnect(@, now),          \* (repaired behaviour, 7f00bb6)
                                     !.evq = Append(@, <<"Disc", addr>>)]
          [] k = "Input" ->
               LET f == ev[2]  h == ev[3]  v == ev[4]
                   s2 == IF f < s.last_recv THEN SP_Fail(s, "handle_event: input.frame < last_recv_frame") ELSE s
                   hst == EP_UpdateLocalAdv(s2.host, f)
               IN IF f < 0 THEN SP_Fail(s2, "handle_event: negative frame")
                  ELSE [s2 EXCEPT !.ring[f % SpectatorBuffer][h] = [frame |-> f, input |-> v],
                                  !.last_recv = f,
                                  !.host = hst,
                                  !.host_status = [i \in 0..s2.np-1 |-> hst.peer_status[i]]]
          [] OTHER -> s
      n == Len(s1.evq)
  IN IF n > MaxEventQueue THEN [s1 EXCEPT !.evq = SubSeq(@, n - MaxEventQueue + 1, n)] ELSE s1

RECURSIVE SP_HandleInbox(_, _, _, _)
SP_HandleInbox(s, inbox, now, i) ==
  IF i > Len(inbox) THEN s
  ELSE IF inbox[i][1] = s.hostAddr
       THEN SP_HandleInbox([s EXCEPT !.host = EP_Handle(@, inbox[i][2], now)], inbox, now, i + 1)
       ELSE SP_HandleInbox(s, inbox, now, i + 1)

RECURSIVE SP_HandleEvents(_, _, _, _)
SP_HandleEvents(s, evs, now, i) ==
  IF i > Len(evs) THEN s ELSE SP_HandleEvents(SP_HandleEvent(s, evs[i], now), evs, now, i + 1)

SP_PollInner(s, inbox, now) ==
  LET s1 == SP_HandleInbox(s, inbox, now, 1)
      r  == EP_Poll(s1.host, s1.host_status, now)
      s2 == SP_HandleEvents([s1 EXCEPT !.host = r[1]], r[2], now, 1)
      fl == EP_Flush(s2.host)
      s3 == [s2 EXCEPT !.host = fl[1], !.out = @ \o [i \in 1..Len(fl[2]) |-> <<s2.hostAddr, fl[2][i]>>]]
  IN IF s3.err = "" /\ s3.host.err # "" THEN [s3 EXCEPT !.err = s3.host.err] ELSE s3

\* public: poll_remote_clients -> <<s, out>>
SP_Poll(s, inbox, now) ==
  LET s1 == SP_PollInner([s EXCEPT !.out = <<>>], inbox, now) IN <<[s1 EXCEPT !.out = <<>>], s1.out>>

\* inputs_at_frame: <<"ok", inputs>> | <<"E:...">>
SP_InputsAt(s, f) ==
  LET slot == s.ring[f % SpectatorBuffer]
  IN IF slot[0].frame < f THEN <<"E:PredictionThreshold", <<>>>>
     ELSE IF slot[0].frame > f THEN <<"E:SpectatorTooFarBehind", <<>>>>
     ELSE <<"ok", [i \in 1..s.np |->
                     IF s.host_status[i-1].disc /\ s.host_status[i-1].last < f
                     THEN <<slot[i-1].input, Disconnected>> ELSE <<slot[i-1].input, Confirmed>>]>>

RECURSIVE SP_Grab(_, _, _, _)
SP_Grab(s, reqs, i, n) ==
  IF i >= n THEN <<s, "ok", reqs>>
  ELSE LET r == SP_InputsAt(s, s.cur + 1)
       IN IF r[1] # "ok" THEN <<s, r[1], <<>>>>           \* `?`: the requests built so far are lost
          ELSE SP_Grab([s EXCEPT !.cur = @ + 1], Append(reqs, <<"A", r[2]>>), i + 1, n)

\* public: advance_frame -> <<s, out, result, requests>>
SP_AdvanceFrame(s, inbox, now) ==
  LET s1 == SP_PollInner([s EXCEPT !.out = <<>>], inbox, now)
  IN IF s1.err # "" THEN <<[s1 EXCEPT !.out = <<>>], s1.out, "P", <<>>>>
     ELSE IF ~s1.running THEN <<[s1 EXCEPT !.out = <<>>], s1.out, "E:NotSynchronized", <<>>>>
     ELSE LET behind == s1.last_recv - s1.cur
              n == IF behind > s1.max_behind
                   THEN Min2(Min2(s1.catchup, behind), SpectatorBuffer - 1) ELSE NormalSpeed
              r == SP_Grab(s1, <<>>, 0, n)
          IN IF behind < 0 THEN <<[SP_Fail(s1, "frames_behind_host: negative") EXCEPT !.out = <<>>], s1.out, "P", <<>>>>
             ELSE <<[r[1] EXCEPT !.out = <<>>], s1.out, r[2], r[3]>>

SP_Events(s) == <<[s EXCEPT !.evq = <<>>], s.evq>>
SP_NetworkStats(s, now) == EP_NetworkStats(s.host, now)
=============================================================================
