-------------------------- MODULE Trace_TimeSync --------------------------
(* Records of the real TimeSync window (harness/src/bin/timesync.rs) validated against TimeSync.tla. *)
EXTENDS TimeSync, TLC, Json, IOUtils, SequencesExt

Rec == ndJsonDeserialize(IOEnv.TRACE)

\* index of the first step whose reported average differs from the specification (0 = none)
RECURSIVE Walk(_, _, _)
Walk(ts, steps, i) ==
  IF i > Len(steps) THEN 0
  ELSE LET t1 == TS_Advance(ts, steps[i][1], steps[i][2], steps[i][3])
       IN IF TS_AverageF32(t1) # steps[i][4] \/ ~TS_AverageOK(t1, steps[i][4]) THEN i ELSE Walk(t1, steps, i + 1)

Bad == SelectSeq([i \in 1..Len(Rec) |-> i], LAMBDA i : Walk(TS_New, Rec[i].steps, 1) # 0)

VARIABLE done
Init == done = FALSE
Next == done' = TRUE
Spec == Init /\ [][Next]_done
Report == done => PrintT(<<"TS-RESULT", ToJson([records |-> Len(Rec), bad |-> Len(Bad),
             first |-> IF Bad = <<>> THEN <<>> ELSE <<Rec[Bad[1]]>>,
             theorems |-> (\A k \in -9..9 : SteadyLead(k))])>>)
=============================================================================
