------------------------------- MODULE System -------------------------------
(***************************************************************************)
(* Composition: N peers running P2P sessions (P2P.tla), each with its game *)
(* and save cells, an adversarial network (per-link in-flight queues with  *)
(* loss, duplication and reordering) and a clock.  One action per public   *)
(* API call / network step - exactly the step vocabulary of the harness    *)
(* (harness/src/world.rs), so that                                         *)
(*   - TLC behaviours of this specification are schedules the harness can  *)
(*     replay on the real sessions (spec -> impl), and                     *)
(*   - traces of the real sessions can be replayed through these actions   *)
(*     (Trace_Sys.tla, impl -> spec).                                      *)
(* Every action produces the observation line the harness would log        *)
(* (ObsLine...) and feeds it to the property monitor (Monitor!Update); the *)
(* properties are the invariant g.viol = <<>> plus NoPanic.                *)
(***************************************************************************)
EXTENDS P2P, Spectator, Monitor

CONSTANTS
  Peers,        \* sequence of [kind |-> "p2p", locals |-> <<handles>>, delay |-> d, host |-> 0]
  NumPlayers,
  Window,
  Sparse,
  PredDefault,
  DesyncInterval,
  Fps, Timeout, Notify,
  Values,       \* input alphabet
  MaxFrame,     \* sessions stop ticking at this frame
  LinkCap,      \* in-flight packets per directed link; overflow drops the oldest
  DupBudget,
  ClockSteps,   \* set of clock increments (ms) the environment may take
  MaxClock,
  PreSynced,    \* TRUE: start after the handshake (endpoints Running)
  InboxCap,     \* at most this many delivered-but-unread packets per peer (guard on Deliver)
  Mortal,       \* peers that may die at any moment (at most one dies); survivors then call disconnect_player
  EagerNet,     \* TRUE: reliable FIFO network that delivers before any session acts again (component runs)
  DelayValues,  \* input delays set_input_delay may be called with at run time ({} = never)
  VaryAll,      \* TRUE: every peer draws inputs from Values; FALSE: only peer 0 (the others submit Default)
  MaxBehind, Catchup,   \* spectator catch-up settings
  WaitMs,       \* > 0: lockstep sessions may call advance_frame_with_wait_timeout(WaitMs ms) (0 = never)
  Granular      \* TRUE: poll_remote_clients / events() are separate steps, packets can be dropped explicitly

VARIABLES ss, cells, game, net, inbox, now, alive, dups, g, lastLine

sysvars == <<ss, cells, game, net, inbox, now, alive, dups, g, lastLine>>

N == Len(Peers)
PeerIds == 0..N-1
P2PIds == {p \in PeerIds : Peers[p+1].kind = "p2p"}
SpecIds == {p \in PeerIds : Peers[p+1].kind = "spec"}
Owner(h) == CHOOSE p \in P2PIds : \E i \in 1..Len(Peers[p+1].locals) : Peers[p+1].locals[i] = h

CfgRecord ==
  [ players |-> NumPlayers, window |-> Window, sparse |-> Sparse,
    predictor |-> IF PredDefault THEN "default" ELSE "repeat",
    desync |-> DesyncInterval, notify |-> Notify, timeout |-> Timeout,
    max_behind |-> MaxBehind, catchup |-> Catchup, max_delay |-> 8, peers |-> Peers, waitapi |-> WaitMs > 0,
    presynced |-> PreSynced ]

\* spectators attached to host p get the handles NumPlayers, NumPlayers+1, ... in peer order
SpecsOf(p) == SelectSeq([i \in 1..N |-> i - 1], LAMBDA q : Peers[q+1].kind = "spec" /\ Peers[q+1].host = p)

HType(p) ==
  LET sp == SpecsOf(p)
  IN [h \in 0..NumPlayers + Len(sp) - 1 |->
        IF h >= NumPlayers THEN [t |-> "S", a |-> sp[h - NumPlayers + 1]]
        ELSE IF Owner(h) = p THEN [t |-> "L"] ELSE [t |-> "R", a |-> Owner(h)]]

\* skip the handshake: every endpoint Running and authorised
PreSync(s) ==
  [s EXCEPT !.running = TRUE,
            !.eps = [a \in DOMAIN s.eps |->
                       [s.eps[a] EXCEPT !.state = "Run", !.sync_remaining = 0, !.nonces = {},
                                        !.sendq = <<>>, !.remote_magic = <<a, s.me>>]]]

NewSession(p, t0) ==
  LET s == P2P_New(p, NumPlayers, Window, Sparse, PredDefault, DesyncInterval, Peers[p+1].delay,
                   Fps, Timeout, Notify, HType(p), t0)
  IN IF PreSynced THEN PreSync(s) ELSE s

PreSyncSpec(s) ==
  [s EXCEPT !.running = TRUE,
            !.host = [s.host EXCEPT !.state = "Run", !.sync_remaining = 0, !.nonces = {}, !.sendq = <<>>,
                                    !.remote_magic = <<s.hostAddr, s.me>>]]

NewSpec(p, t0) ==
  LET s == SP_New(p, Peers[p+1].host, NumPlayers, Window, Timeout, Notify, Fps, MaxBehind, Catchup, t0)
  IN IF PreSynced THEN PreSyncSpec(s) ELSE s

T0 == 1000000

Links == {<<a, b>> \in PeerIds \X PeerIds : a # b}

Init ==
  /\ now = T0
  /\ ss = [p \in PeerIds |-> IF p \in P2PIds THEN NewSession(p, T0) ELSE NewSpec(p, T0)]
  /\ cells = [p \in PeerIds |-> CellsNew(Window)]
  /\ game = [p \in PeerIds |-> [frame |-> 0, hash |-> HashInit]]
  /\ net = [lk \in Links |-> <<>>]
  /\ inbox = [p \in PeerIds |-> <<>>]
  /\ alive = [p \in PeerIds |-> TRUE]
  /\ dups = DupBudget
  /\ g = InitRun(CfgRecord, <<>>, Stats0, 1)
  /\ lastLine = [a |-> "init"]

---------------------------------------------------------------------------
\* observation lines (the harness' projection, see world.rs observe()/take_logs())

StateName(st) == CASE st = "Init" -> "Initializing" [] st = "Sync" -> "Synchronizing"
                   [] st = "Run" -> "Running" [] st = "Disc" -> "Disconnected" [] OTHER -> "Shutdown"

EpBuf(s) ==
  LET as == AllAddrs(s)
  IN [i \in 1..Len(as) |->
        LET e == s.eps[as[i]]
        IN <<as[i], Len(e.pending), Cardinality(DOMAIN e.recv), Cardinality(DOMAIN e.pending_checksums),
             Len(e.sendq), Len(e.evq), StateName(e.state)>>]

RxInputs(ib) ==
  LET idx == SelectSeq([i \in 1..Len(ib) |-> i], LAMBDA i : ib[i][2].k = "In")
  IN [j \in 1..Len(idx) |-> <<ib[idx[j]][1], ib[idx[j]][2].start, Len(ib[idx[j]][2].frames), ib[idx[j]][2].dr>>]

RxFrom(ib) == SortedSeq({ib[i][1] : i \in 1..Len(ib)})

\* handshake packets: requests sent <<to, nonce>>, replies consumed <<from, nonce, genuine magic>>
StxOf(out) ==
  LET idx == SelectSeq([i \in 1..Len(out) |-> i], LAMBDA i : out[i][2].k = "SRq")
  IN [j \in 1..Len(idx) |-> <<out[idx[j]][1], out[idx[j]][2].nonce>>]
SrxOf(me, ib) ==
  LET idx == SelectSeq([i \in 1..Len(ib) |-> i], LAMBDA i : ib[i][2].k = "SRp")
  IN [j \in 1..Len(idx) |-> <<ib[idx[j]][1], ib[idx[j]][2].nonce,
                               IF ib[idx[j]][2].mg = <<ib[idx[j]][1], me>> THEN 1 ELSE 0>>]

ObsSession(s, gm, line) ==
  line @@
  [ g |-> <<gm.frame, gm.hash>>,
    cur |-> s.sl.cur,
    conf |-> IF s.running THEN P2P_ConfirmedFrame(s) ELSE -1,
    run |-> s.running,
    fa |-> s.frames_ahead,
    st |-> [i \in 1..s.np |-> <<s.status[i-1].disc, s.status[i-1].last>>],
    evq |-> Len(s.evq),
    buf |-> [out |-> Cardinality(DOMAIN s.outgoing), pl |-> Cardinality(DOMAIN s.pending_local),
             ck |-> Cardinality(DOMAIN s.ck_hist), ep |-> EpBuf(s)],
    lso |-> s.last_sent_outgoing,
    og |-> SortedSeq(DOMAIN s.outgoing),
    \* num_players(), num_spectators(), max_prediction(), in_lockstep_mode()
    gt |-> <<s.np, Len(s.saddrs), s.W, s.W = 0>>,
    \* local_player_handles(), remote_player_handles(), spectator_handles(): ascending
    hl |-> << SortedSeq({h \in DOMAIN s.htype : s.htype[h].t = "L"}),
              SortedSeq({h \in DOMAIN s.htype : s.htype[h].t = "R"}),
              SortedSeq({h \in DOMAIN s.htype : s.htype[h].t = "S"}) >> ]

\* the harness game executing a request list: <<cells, game, annotated requests>>
RECURSIVE ExecA(_, _, _, _, _, _)
ExecA(W, cs, gm, reqs, i, acc) ==
  IF i > Len(reqs) THEN <<cs, gm, acc>>
  ELSE LET rq == reqs[i]
       IN CASE rq[1] = "S" ->
                 ExecA(W, [cs EXCEPT ![CellSlot(W, rq[2])] = [frame |-> rq[2], hash |-> gm.hash]], gm, reqs, i + 1,
                       Append(acc, <<"S", rq[2], gm.frame, gm.hash>>))
            [] rq[1] = "L" ->
                 LET c == cs[CellSlot(W, rq[2])]
                 IN IF c.frame = NullFrame
                    THEN ExecA(W, cs, gm, reqs, i + 1, Append(acc, <<"L", rq[2], -2, 0>>))
                    ELSE ExecA(W, cs, [frame |-> c.frame, hash |-> c.hash], reqs, i + 1,
                               Append(acc, <<"L", rq[2], c.frame, c.hash>>))
            [] OTHER ->
                 ExecA(W, cs, [frame |-> gm.frame + 1, hash |-> Chain(gm.hash, rq[2])], reqs, i + 1,
                       Append(acc, <<"A", rq[2]>>))

---------------------------------------------------------------------------
\* network

\* messages a call handed to the socket: appended to the links, overflow drops the oldest
RECURSIVE Transmit(_, _, _, _)
Transmit(nt, p, out, i) ==
  IF i > Len(out) THEN nt
  ELSE LET to == out[i][1]
           lk == <<p, to>>
       IN IF ~alive[to] THEN Transmit(nt, p, out, i + 1)
          ELSE LET q  == Append(nt[lk], out[i][2])
                   q2 == IF Len(q) > LinkCap THEN Tail(q) ELSE q
               IN Transmit([nt EXCEPT ![lk] = q2], p, out, i + 1)

DelAt(sq, k) == SubSeq(sq, 1, k - 1) \o SubSeq(sq, k + 1, Len(sq))

Feed(line) == g' = Update(g, line) /\ lastLine' = line

---------------------------------------------------------------------------
\* actions

\* one game-loop iteration of peer p: add_local_input for every local player, advance_frame,
\* execute the requests
RECURSIVE AddAll(_, _, _, _)
AddAll(s, locals, vals, i) ==
  IF i > Len(locals) THEN s ELSE AddAll(P2P_AddLocalInput(s, locals[i], vals[i])[1], locals, vals, i + 1)

TickWith(p, vals) ==
  LET s0  == ss[p]
      s1  == AddAll(s0, s0.locals, vals, 1)
      r   == P2P_AdvanceFrame(s1, cells[p], inbox[p], now)
      s2  == r[1]
      ex  == IF r[3] = "ok" THEN ExecA(Window, cells[p], game[p], r[4], 1, <<>>) ELSE <<cells[p], game[p], <<>>>>
      line == ObsSession(s2, ex[2],
                [ a |-> "tick", p |-> p, n |-> 0, t |-> now,
                  in |-> [i \in 1..Len(s0.locals) |-> <<s0.locals[i], vals[i]>>],
                  add |-> [i \in 1..Len(s0.locals) |-> "ok"],
                  r |-> IF r[3] = "P" THEN "P:" \o s2.err ELSE r[3],
                  q |-> ex[3],
                  cur0 |-> s0.sl.cur, g0 |-> <<game[p].frame, game[p].hash>>,
                  rxi |-> RxInputs(inbox[p]), rxf |-> RxFrom(inbox[p]), ntx |-> Len(r[2]),
                  stx |-> StxOf(r[2]), srx |-> SrxOf(p, inbox[p]) ])
  IN /\ ss' = [ss EXCEPT ![p] = s2]
     /\ cells' = [cells EXCEPT ![p] = ex[1]]
     /\ game' = [game EXCEPT ![p] = ex[2]]
     /\ inbox' = [inbox EXCEPT ![p] = <<>>]
     /\ net' = Transmit(net, p, r[2], 1)
     /\ Feed(line)
     /\ UNCHANGED <<now, alive, dups>>

\* the same iteration through advance_frame_with_wait_timeout(WaitMs).  arrs = the packets that reach the
\* socket while the call waits, in arrival order: <<yield number 1..WaitMs, from, position in the link at
\* that moment>>.  The clock advances by the number of yields the call takes.
RECURSIVE TakeArr(_, _, _, _, _)
TakeArr(nt, p, arrs, i, acc) ==
  IF i > Len(arrs) THEN <<nt, acc>>
  ELSE LET lk == <<arrs[i][2], p>>
           k  == arrs[i][3]
       IN TakeArr([nt EXCEPT ![lk] = DelAt(@, k)], p, arrs, i + 1, Append(acc, <<arrs[i][1], arrs[i][2], nt[lk][k]>>))

WaitResult(p, vals, arrs) ==
  LET s1   == AddAll(ss[p], ss[p].locals, vals, 1)
      got  == TakeArr(net, p, arrs, 1, <<>>)[2]
      arrF == [i \in 1..WaitMs |->
                LET idx == SelectSeq([j \in 1..Len(got) |-> j], LAMBDA j : got[j][1] = i)
                IN [j \in 1..Len(idx) |-> <<got[idx[j]][2], got[idx[j]][3]>>]]
  IN P2P_AdvanceFrameWait(s1, cells[p], inbox[p], now, WaitMs, arrF)

TickWaitWith(p, vals, arrs) ==
  LET s0   == ss[p]
      tk   == TakeArr(net, p, arrs, 1, <<>>)
      got  == tk[2]
      r    == WaitResult(p, vals, arrs)
      s2   == r[1]
      y    == r[5]
      \* the poll of loop iteration j reads what arrived in yield j; nothing reads the arrivals of the last yield
      rdI  == SelectSeq([j \in 1..Len(got) |-> j], LAMBDA j : got[j][1] <= Min2(y, WaitMs - 1))
      unI  == SelectSeq([j \in 1..Len(got) |-> j], LAMBDA j : got[j][1] > Min2(y, WaitMs - 1))
      ib   == inbox[p] \o [j \in 1..Len(rdI) |-> <<got[rdI[j]][2], got[rdI[j]][3]>>]
      ex   == IF r[3] = "ok" THEN ExecA(Window, cells[p], game[p], r[4], 1, <<>>) ELSE <<cells[p], game[p], <<>>>>
      line == ObsSession(s2, ex[2],
                [ a |-> "tick", p |-> p, n |-> 0, t |-> now, wait |-> WaitMs, t1 |-> now + y,
                  arr |-> [i \in 1..Len(arrs) |-> <<arrs[i][1], arrs[i][2], arrs[i][3] - 1>>],
                  in |-> [i \in 1..Len(s0.locals) |-> <<s0.locals[i], vals[i]>>],
                  add |-> [i \in 1..Len(s0.locals) |-> "ok"],
                  r |-> IF r[3] = "P" THEN "P:" \o s2.err ELSE r[3],
                  q |-> ex[3],
                  cur0 |-> s0.sl.cur, g0 |-> <<game[p].frame, game[p].hash>>,
                  rxi |-> RxInputs(ib), rxf |-> RxFrom(ib), ntx |-> Len(r[2]),
                  stx |-> StxOf(r[2]), srx |-> SrxOf(p, ib) ])
  IN /\ ss' = [ss EXCEPT ![p] = s2]
     /\ cells' = [cells EXCEPT ![p] = ex[1]]
     /\ game' = [game EXCEPT ![p] = ex[2]]
     /\ inbox' = [inbox EXCEPT ![p] = [j \in 1..Len(unI) |-> <<got[unI[j]][2], got[unI[j]][3]>>]]
     /\ net' = Transmit(tk[1], p, r[2], 1)
     /\ now' = now + y
     /\ Feed(line)
     /\ UNCHANGED <<alive, dups>>

NetQuiet == ~EagerNet \/ \A lk \in Links : net[lk] = <<>>

Tick(p) ==
  /\ NetQuiet
  /\ alive[p] /\ ss[p].err = ""
  /\ ss[p].sl.cur < MaxFrame
  /\ \E vals \in [1..Len(ss[p].locals) -> IF VaryAll \/ p = 0 THEN Values ELSE {Default}] : TickWith(p, vals)

\* lockstep sessions may wait for the confirmation (WaitMs > 0); at most one in-flight packet arrives meanwhile
TickW(p) ==
  /\ WaitMs > 0 /\ Window = 0
  /\ now + WaitMs <= MaxClock
  /\ NetQuiet
  /\ alive[p] /\ ss[p].err = ""
  /\ ss[p].sl.cur < MaxFrame
  /\ \E vals \in [1..Len(ss[p].locals) -> IF VaryAll \/ p = 0 THEN Values ELSE {Default}] :
       \/ TickWaitWith(p, vals, <<>>)
       \/ \E from \in PeerIds \ {p} : \E off \in 1..WaitMs :
             \E k \in 1..(IF EagerNet THEN 1 ELSE LinkCap) :
               /\ k <= Len(net[<<from, p>>])
               /\ WaitResult(p, vals, << <<off, from, k>> >>)[5] >= off     \* the call is still waiting then
               /\ TickWaitWith(p, vals, << <<off, from, k>> >>)

Poll(p) ==
  /\ alive[p] /\ ss[p].err = ""
  /\ inbox[p] # <<>>
  /\ LET r == P2P_Poll(ss[p], inbox[p], now)
         line == ObsSession(r[1], game[p],
                   [ a |-> "poll", p |-> p, n |-> 0, t |-> now,
                     r |-> IF r[1].err # "" THEN "P:" \o r[1].err ELSE "ok",
                     rxi |-> RxInputs(inbox[p]), rxf |-> RxFrom(inbox[p]), ntx |-> Len(r[2]),
                  stx |-> StxOf(r[2]), srx |-> SrxOf(p, inbox[p]) ])
     IN /\ ss' = [ss EXCEPT ![p] = r[1]]
        /\ inbox' = [inbox EXCEPT ![p] = <<>>]
        /\ net' = Transmit(net, p, r[2], 1)
        /\ Feed(line)
        /\ UNCHANGED <<cells, game, now, alive, dups>>

Events(p) ==
  /\ alive[p] /\ ss[p].err = ""
  /\ ss[p].evq # <<>>
  /\ LET r == P2P_Events(ss[p])
     IN /\ ss' = [ss EXCEPT ![p] = r[1]]
        /\ Feed([a |-> "ev", p |-> p, n |-> 0, t |-> now, r |-> "ok", ev |-> r[2]])
        /\ UNCHANGED <<cells, game, net, inbox, now, alive, dups>>

\* observation line of a spectator session
ObsSpec(s, gm, line) ==
  line @@
  [ g |-> <<gm.frame, gm.hash>>, cur |-> s.cur, run |-> s.running, lrf |-> s.last_recv, evq |-> Len(s.evq),
    fbh |-> s.last_recv - s.cur, npl |-> s.np,      \* frames_behind_host(), num_players()
    st |-> [i \in 1..s.np |-> <<s.host_status[i-1].disc, s.host_status[i-1].last>>] ]

TickSpecWith(p) ==
  LET s0 == ss[p]
      r  == SP_AdvanceFrame(s0, inbox[p], now)
      ex == IF r[3] = "ok" THEN ExecA(Window, cells[p], game[p], r[4], 1, <<>>) ELSE <<cells[p], game[p], <<>>>>
      line == ObsSpec(r[1], ex[2],
                [ a |-> "tick", p |-> p, n |-> 0, t |-> now,
                  r |-> IF r[3] = "P" THEN "P:" \o r[1].err ELSE r[3],
                  q |-> ex[3], cur0 |-> s0.cur, g0 |-> <<game[p].frame, game[p].hash>>,
                  rxi |-> RxInputs(inbox[p]), rxf |-> RxFrom(inbox[p]), ntx |-> Len(r[2]),
                  stx |-> StxOf(r[2]), srx |-> SrxOf(p, inbox[p]) ])
  IN /\ ss' = [ss EXCEPT ![p] = r[1]]
     /\ game' = [game EXCEPT ![p] = ex[2]]
     /\ inbox' = [inbox EXCEPT ![p] = <<>>]
     /\ net' = Transmit(net, p, r[2], 1)
     /\ Feed(line)
     /\ UNCHANGED <<cells, now, alive, dups>>

SpecTick(p) == NetQuiet /\ alive[p] /\ ss[p].err = "" /\ ss[p].cur < MaxFrame - 1 /\ TickSpecWith(p)

PollSpecWith(p) ==
  LET r == SP_Poll(ss[p], inbox[p], now)
      line == ObsSpec(r[1], game[p],
                [ a |-> "poll", p |-> p, n |-> 0, t |-> now,
                  r |-> IF r[1].err # "" THEN "P:" \o r[1].err ELSE "ok",
                  rxi |-> RxInputs(inbox[p]), rxf |-> RxFrom(inbox[p]), ntx |-> Len(r[2]),
                  stx |-> StxOf(r[2]), srx |-> SrxOf(p, inbox[p]) ])
  IN /\ ss' = [ss EXCEPT ![p] = r[1]]
     /\ inbox' = [inbox EXCEPT ![p] = <<>>]
     /\ net' = Transmit(net, p, r[2], 1)
     /\ Feed(line)
     /\ UNCHANGED <<cells, game, now, alive, dups>>

PollSpec(p) == alive[p] /\ ss[p].err = "" /\ inbox[p] # <<>> /\ PollSpecWith(p)

EventsSpec(p) ==
  /\ alive[p] /\ ss[p].err = "" /\ ss[p].evq # <<>>
  /\ LET r == SP_Events(ss[p])
     IN /\ ss' = [ss EXCEPT ![p] = r[1]]
        /\ Feed([a |-> "ev", p |-> p, n |-> 0, t |-> now, r |-> "ok", ev |-> r[2]])
        /\ UNCHANGED <<cells, game, net, inbox, now, alive, dups>>

Deliver(lk, k) ==
  /\ k \in 1..Len(net[lk])
  /\ Len(inbox[lk[2]]) < InboxCap
  /\ net' = [net EXCEPT ![lk] = DelAt(@, k)]
  /\ inbox' = IF alive[lk[2]] THEN [inbox EXCEPT ![lk[2]] = Append(@, <<lk[1], net[lk][k]>>)] ELSE inbox
  /\ Feed([a |-> "dlv", from |-> lk[1], to |-> lk[2], k |-> k - 1, n |-> 0, t |-> now])
  /\ UNCHANGED <<ss, cells, game, now, alive, dups>>

Drop(lk, k) ==
  /\ k \in 1..Len(net[lk])
  /\ net' = [net EXCEPT ![lk] = DelAt(@, k)]
  /\ Feed([a |-> "drop", from |-> lk[1], to |-> lk[2], k |-> k - 1, n |-> 0, t |-> now])
  /\ UNCHANGED <<ss, cells, game, inbox, now, alive, dups>>

Dup(lk, k) ==
  /\ dups > 0
  /\ k \in 1..Len(net[lk])
  /\ Len(net[lk]) < LinkCap
  /\ net' = [net EXCEPT ![lk] = Append(@, net[lk][k])]
  /\ dups' = dups - 1
  /\ Feed([a |-> "dup", from |-> lk[1], to |-> lk[2], k |-> k - 1, n |-> 0, t |-> now])
  /\ UNCHANGED <<ss, cells, game, inbox, now, alive>>

Tock(d) ==
  /\ now + d <= MaxClock
  /\ now' = now + d
  /\ Feed([a |-> "clk", d |-> d, n |-> 0, t |-> now + d])
  /\ UNCHANGED <<ss, cells, game, net, inbox, alive, dups>>

Kill(p) ==
  /\ alive[p]
  /\ alive' = [alive EXCEPT ![p] = FALSE]
  /\ net' = [lk \in Links |-> IF lk[2] = p THEN <<>> ELSE net[lk]]
  /\ inbox' = [inbox EXCEPT ![p] = <<>>]
  /\ Feed([a |-> "kill", p |-> p, n |-> 0, t |-> now])
  /\ UNCHANGED <<ss, cells, game, now, dups>>

DisconnectPlayer(p, h) ==
  /\ alive[p] /\ ss[p].err = ""
  /\ LET r == P2P_DisconnectPlayer(ss[p], h, now)
     IN /\ r[2] = "ok"
        /\ ss' = [ss EXCEPT ![p] = r[1]]
        /\ Feed(ObsSession(r[1], game[p], [a |-> "disc", p |-> p, h |-> h, n |-> 0, t |-> now, r |-> r[2]]))
        /\ UNCHANGED <<cells, game, net, inbox, now, alive, dups>>

SetDelayAct(p, h, d) ==
  /\ alive[p] /\ ss[p].err = ""
  /\ LET r == P2P_SetInputDelay(ss[p], h, d, now)
     IN /\ ss' = [ss EXCEPT ![p] = r[1]]
        /\ net' = Transmit(net, p, r[2], 1)
        /\ Feed(ObsSession(r[1], game[p],
                  [a |-> "dly", p |-> p, h |-> h, d |-> d, n |-> 0, t |-> now, r |-> r[3], cur0 |-> ss[p].sl.cur]))
        /\ UNCHANGED <<cells, game, inbox, now, alive, dups>>

NetStep ==
  \E lk \in Links : \E k \in 1..(IF EagerNet THEN 1 ELSE LinkCap) :
     \/ Deliver(lk, k)
     \/ (Granular /\ Drop(lk, k))
     \/ Dup(lk, k)

DelayStep ==
  /\ NetQuiet
  /\ \E p \in P2PIds : \E i \in 1..Len(Peers[p+1].locals) : \E d \in DelayValues :
     /\ ss[p].sl.queues[Peers[p+1].locals[i]].delay # d
     /\ ss[p].sl.queues[Peers[p+1].locals[i]].last_added <= MaxFrame    \* keeps the exploration finite
     /\ SetDelayAct(p, Peers[p+1].locals[i], d)

\* one of the Mortal peers stops existing (its packets still in flight may arrive); a survivor
\* reacts with disconnect_player for its handles (the same code path as a time-out, without a clock)
DeathStep ==
  \/ \E v \in Mortal : (\A q \in PeerIds : alive[q]) /\ Kill(v)
  \/ \E p \in P2PIds : \E v \in Mortal :
        /\ ~alive[v] /\ alive[p]
        /\ \E i \in 1..Len(Peers[v+1].locals) :
              /\ ~ss[p].status[Peers[v+1].locals[i]].disc
              /\ DisconnectPlayer(p, Peers[v+1].locals[i])

Next ==
  \/ \E p \in P2PIds : Tick(p) \/ TickW(p) \/ (Granular /\ (Poll(p) \/ Events(p)))
  \/ \E p \in SpecIds : SpecTick(p) \/ (Granular /\ (PollSpec(p) \/ EventsSpec(p)))
  \/ DelayStep
  \/ DeathStep
  \/ NetStep
  \/ \E d \in ClockSteps : Tock(d)

Spec == Init /\ [][Next]_sysvars

---------------------------------------------------------------------------
\* properties

NoViolation == g.viol = <<>>
NoPanic == \A p \in PeerIds : ss[p].err = ""

\* observation/statistics fields do not distinguish states
View == <<ss, cells, game, net, inbox, now, alive, dups, [g EXCEPT !.stats = 0]>>
=============================================================================
