---------------------------- MODULE MC_Session2 ----------------------------
(* Two peers, one local player each, already synchronised, frozen clock. *)
EXTENDS System

MCPeers == << [kind |-> "p2p", locals |-> <<0>>, delay |-> 0, host |-> 0],
              [kind |-> "p2p", locals |-> <<1>>, delay |-> 0, host |-> 0] >>
MCValues == {0, 1}
MCClockSteps == {}
=============================================================================
