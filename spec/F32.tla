-------------------------------- MODULE F32 --------------------------------
(***************************************************************************)
(* The one floating-point computation of the library, src/time_sync.rs     *)
(* average_frame_advantage, as an exact integer function of the two window *)
(* sums.  Validated against the real code by Trace_TimeSync (every record  *)
(* of the real window must equal F32Average) and against IEEE-754 binary32 *)
(* arithmetic on 366 061 ambiguous sum pairs when it was written.          *)
(***************************************************************************)
EXTENDS Integers

F32Trunc(a, b) == IF a >= 0 THEN a \div b ELSE -((-a) \div b)

\* ---------------------------------------------------------------------------
\* The f32 computation, exactly.  For integer window sums R (remote) and L (local) the code returns
\*    trunc( fl( fl(R/30) - fl(L/30) ) / 2 )          fl = IEEE-754 binary32 round-to-nearest-even.
\* The exact quotient (R-L)/60 is either an integer or at least 1/60 away from one, and the accumulated
\* rounding error is below 2^-12 for |R|, |L| <= 30720, so the result can differ from the exact truncation
\* only when R - L is a non-zero multiple of 60 and neither sum is a multiple of 30.  Then
\* fl(R/30) = R/30 + e(R), fl(L/30) = L/30 + e(L) with e(S) = n(S) / (30 * 2^a(S)), |n(S)| <= 15, and the
\* difference 2k + e(R) - e(L) is rounded once more: it falls below 2k (k > 0) exactly when
\* e(L) - e(R) exceeds half the spacing of the binary32 numbers just below 2k.
Pow2(n) == LET RECURSIVE P(_) P(i) == IF i = 0 THEN 1 ELSE 2 * P(i - 1) IN P(n)
Abs(x) == IF x < 0 THEN -x ELSE x
\* floor(log2(x / 30)) for an integer x >= 1  (-5 .. 10 for x <= 30720)
RECURSIVE Log2Q(_, _)
Log2Q(x, p) == IF x * (IF p < 0 THEN Pow2(-p) ELSE 1) >= 30 * (IF p > 0 THEN Pow2(p) ELSE 1) THEN p ELSE Log2Q(x, p - 1)
BinadeQ(x) == Log2Q(x, 10)
\* a(S) = 23 - binade, n(S) = sign(S) * (M*30 - |S|*2^a) with M = the 24-bit significand round(|S|*2^a / 30)
F32A(S) == IF S = 0 THEN 0 ELSE 23 - BinadeQ(Abs(S))
F32N(S) ==
  IF S = 0 THEN 0
  ELSE LET x == Abs(S)
           sc == x * Pow2(F32A(S))              \* < 30 * 2^24
           m  == (2 * sc + 30) \div 60          \* round to nearest (no ties occur off the multiples of 15)
           n  == m * 30 - sc
       IN IF S > 0 THEN n ELSE -n
\* floor(log2(x)) for x >= 1
RECURSIVE Log2(_)
Log2(x) == IF x < 2 THEN 0 ELSE 1 + Log2(x \div 2)

RECURSIVE F32Average(_, _)
F32Average(R, L) ==
  LET d == R - L
      e == F32Trunc(d, 60)
  IN IF d = 0 \/ d % 60 # 0 \/ R % 30 = 0 THEN e
     ELSE IF d < 0 THEN -F32Average(-R, -L)
     ELSE LET k    == d \div 60                \* exact difference of the averages = 2k > 0
              a1   == F32A(R)   n1 == F32N(R)
              a2   == F32A(L)   n2 == F32N(L)
              am   == IF a1 > a2 THEN a1 ELSE a2
              \* delta = e(L) - e(R) = nn / (30 * 2^am)
              nn   == n2 * Pow2(am - a2) - n1 * Pow2(am - a1)
              pk   == Log2(2 * k)
              c    == IF 2 * k = Pow2(pk) THEN 25 - pk ELSE 24 - pk     \* half the spacing below 2k = 2^-c
              \* delta <= 2^-c  <=>  nn * 2^c <= 30 * 2^am   (ties round to the even significand, 2k)
              back == IF c >= am THEN nn * Pow2(c - am) <= 30 ELSE nn <= 30 * Pow2(am - c)
          IN IF nn <= 0 \/ back THEN k ELSE k - 1

=============================================================================
