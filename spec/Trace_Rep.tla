----------------------------- MODULE Trace_Rep -----------------------------
(***************************************************************************)
(* C17: the same plan executed R times inside one process (every hash map  *)
(* of every session gets a fresh random state, handshake nonces and magic  *)
(* numbers differ).  All runs must agree on everything observable:         *)
(*   - per peer: the sequence of advance_frame results, request lists      *)
(*     (with the inputs and statuses of every AdvanceFrame), current and   *)
(*     confirmed frames and game states, call by call, and what the handle *)
(*     getters of the public API return;                                   *)
(*   - per peer and remote address: the sequence of events;                *)
(* (the order of events of DIFFERENT addresses and of packets on different *)
(* links is not promised and not compared).                                *)
(* Evaluated by TLC over one recorded trace that contains the R runs.      *)
(***************************************************************************)
EXTENDS Integers, Sequences, TLC, Json, IOUtils, SequencesExt, FiniteSets

Rec == ndJsonDeserialize(IOEnv.TRACE)

CfgIdx == SelectSeq([i \in 1..Len(Rec) |-> i], LAMBDA i : Rec[i].a = "cfg")
R == Len(CfgIdx)
RunLines(k) == SubSeq(Rec, CfgIdx[k] + 1, IF k < R THEN CfgIdx[k + 1] - 1 ELSE Len(Rec))

NPeers == Len(Rec[1].cfg.peers)

TickProj(r) == [ r |-> r.r, q |-> IF "q" \in DOMAIN r THEN r.q ELSE <<>>,
                 cur |-> IF "cur" \in DOMAIN r THEN r.cur ELSE -9,
                 conf |-> IF "conf" \in DOMAIN r THEN r.conf ELSE -9,
                 g |-> IF "g" \in DOMAIN r THEN r.g ELSE <<>>,
                 \* what local_player_handles() / remote_player_handles() / spectator_handles() return
                 hl |-> IF "hl" \in DOMAIN r THEN r.hl ELSE <<>> ]
Ticks(T, p) == LET s == SelectSeq(T, LAMBDA r : r.a = "tick" /\ r.p = p /\ r.r # "skip")
               IN [i \in 1..Len(s) |-> TickProj(s[i])]

\* events of peer p concerning address a, in order (address-less events separately: a = -1)
EvAddr(e) == IF e[1] = "Wait" THEN -1 ELSE e[2]
Events(T, p, a) ==
  LET s == SelectSeq(T, LAMBDA r : r.a = "ev" /\ r.p = p /\ "ev" \in DOMAIN r)
      all == FoldLeft(LAMBDA acc, r : acc \o r.ev, <<>>, s)
  IN SelectSeq(all, LAMBDA e : EvAddr(e) = a)

FirstDiffSeq(x, y) ==
  LET n == IF Len(x) < Len(y) THEN Len(x) ELSE Len(y)
      d == {i \in 1..n : x[i] # y[i]}
  IN IF d # {} THEN CHOOSE i \in d : \A j \in d : i <= j
     ELSE IF Len(x) # Len(y) THEN n + 1 ELSE 0

\* <<run, peer, what, index>> of the first disagreement with run 1, or <<>>
Diffs ==
  LET T1 == RunLines(1)
      bad == {<<k, p>> \in (2..R) \X (0..NPeers-1) :
                \/ FirstDiffSeq(Ticks(T1, p), Ticks(RunLines(k), p)) # 0
                \/ \E a \in -1..NPeers-1 : Events(T1, p, a) # Events(RunLines(k), p, a)}
  IN IF bad = {} THEN <<>>
     ELSE LET kp == CHOOSE x \in bad : TRUE
              k == kp[1]  p == kp[2]
              td == FirstDiffSeq(Ticks(T1, p), Ticks(RunLines(k), p))
          IN <<k, p, IF td # 0 THEN "call" ELSE "events", td>>

VARIABLE done
Init == done = FALSE
Next == done' = TRUE
Spec == Init /\ [][Next]_done
Report == done => PrintT(<<"REP-RESULT", ToJson([runs |-> R, diff |-> Diffs,
                                                 calls |-> [p \in 0..NPeers-1 |-> Len(Ticks(RunLines(1), p))]])>>)
=============================================================================
