----------------------------- MODULE Trace_Wire -----------------------------
(***************************************************************************)
(* Validates records of the REAL datagram socket (UdpNonBlockingSocket on  *)
(* the loopback interface, harness/src/bin/wire.rs) against Wire.tla.      *)
(*   rx: raw datagram sent to the socket, what receive_all_messages handed *)
(*       out for it (canonical bytes of the message, <<>> if nothing)      *)
(*   tx: message given to send_to (canonical bytes computed by the harness *)
(*       from the message's fields) and the raw bytes found on the wire    *)
(***************************************************************************)
EXTENDS Wire, TLC, Json, IOUtils, FiniteSets

Rec == ndJsonDeserialize(IOEnv.TRACE)

Judge(r) ==
  CASE r.k = "rx" ->
         IF "panic" \in DOMAIN r THEN "socket-panicked-on-datagram"
         ELSE IF r.n # 1 /\ ~(r.n = 0 /\ r.res = <<>>) THEN "one-datagram-yielded-several-messages"
         ELSE IF r.res \in WireAllowed(r.data) THEN ""
         ELSE IF ~WireAccepts(r.data) THEN "malformed-datagram-accepted"
         ELSE IF r.res = <<>> THEN "well-formed-datagram-dropped"
         ELSE "message-differs-from-datagram"
    [] r.k = "tx" ->
         IF "panic" \in DOMAIN r THEN "socket-panicked-on-send"
         ELSE IF r.wire # r.canon THEN "sent-bytes-differ-from-message"
         ELSE IF ~IsEncoding(r.wire) THEN "sent-bytes-are-no-encoding"
         ELSE ""
    [] OTHER -> "unknown-record"

Verdicts == [i \in 1..Len(Rec) |-> Judge(Rec[i])]
BadIdx == SelectSeq([i \in 1..Len(Rec) |-> i], LAMBDA i : Verdicts[i] # "")
Accepted == Len(SelectSeq([i \in 1..Len(Rec) |-> i], LAMBDA i : Rec[i].k = "rx" /\ WireAccepts(Rec[i].data)))
Short(r) == IF r.k = "rx" /\ Len(r.data) > 80 THEN [r EXCEPT !.data = SubSeq(r.data, 1, 80) \o <<Len(r.data)>>] ELSE r

VARIABLE done
Init == done = FALSE
Next == done' = TRUE
Spec == Init /\ [][Next]_done
Report == done => PrintT(<<"WIRE-RESULT",
                ToJson([records |-> Len(Rec), accepted |-> Accepted, bad |-> Len(BadIdx),
                        first |-> [i \in 1..(IF Len(BadIdx) < 5 THEN Len(BadIdx) ELSE 5) |->
                                     [why |-> Verdicts[BadIdx[i]], idx |-> BadIdx[i], rec |-> Short(Rec[BadIdx[i]])]]])>>)
=============================================================================
