SPECIFICATION TraceSpec
CONSTANTS
  QL = 128
  Peers <- TracePeers
  NumPlayers <- TraceNumPlayers
  Window <- TraceWindow
  Sparse <- TraceSparse
  PredDefault <- TracePredDefault
  DesyncInterval <- TraceDesync
  Fps <- TraceFps
  Timeout <- TraceTimeout
  Notify <- TraceNotify
  Values = {}
  MaxFrame = 1000000
  LinkCap = 1000000
  DupBudget = 0
  ClockSteps = {}
  MaxClock = 0
  PreSynced = FALSE
  InboxCap = 1000000
  Mortal = {}
  EagerNet = FALSE
  DelayValues = {}
  VaryAll = TRUE
  MaxBehind <- TraceMaxBehind
  Catchup <- TraceCatchup
  Granular = TRUE
  WaitMs <- TraceWaitMs
INVARIANT SysReport
POSTCONDITION SysAccepted
CHECK_DEADLOCK FALSE
