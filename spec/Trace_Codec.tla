---------------------------- MODULE Trace_Codec ----------------------------
(***************************************************************************)
(* Validates records of the REAL codec (harness/src/bin/codec.rs) against  *)
(* Codec.tla.  Records are independent:                                    *)
(*   dec: (reference, data, result of the real decode)  vs  SpecDecode     *)
(*   enc: (reference, inputs, bytes of the real encode)  vs  SpecEncode,   *)
(*        plus the round-trip instance SpecDecode(SpecEncode) = inputs     *)
(* Results larger than 64 decoded bytes are compared by (count, total).    *)
(* Records whose varints exceed TLC's exact integer range are skipped and  *)
(* counted (they are judged by the harness for panic/allocation only).     *)
(***************************************************************************)
EXTENDS Codec, TLC, Json, IOUtils, SequencesExt, FiniteSets

Rec == ndJsonDeserialize(IOEnv.TRACE)

Small == 64

TotalOf(ins) == LET RECURSIVE T(_) T(i) == IF i > Len(ins) THEN 0 ELSE Len(ins[i]) + 2 + T(i + 1) IN T(1)

\* how the harness reports a decode result
Shape(r) == IF IsErr(r) THEN <<"err">>
            ELSE IF TotalOf(r.v) <= Small THEN <<"ok", r.v>> ELSE <<"big", Len(r.v), TotalOf(r.v)>>

SameShape(a, b) == a[1] = b[1] /\ (a[1] = "err" \/ a = b)

Skippable(b) == LET st == RLEScan(b, 1, 0)[1] IN st = "long"

\* "" when the record agrees with the specification, else a reason
Judge(r) ==
  CASE r.k = "dec" ->
         IF r.res[1] = "panic" THEN "decode-panicked"
         ELSE IF Skippable(r.data) THEN "skip"
         ELSE IF ~SameShape(Shape(SpecDecode(r.ref, r.data)), r.res) THEN "decode-differs-from-specification"
         ELSE ""
    [] r.k = "enc" ->
         IF "panic" \in DOMAIN r THEN "encode-panicked"
         ELSE IF ~r.same THEN "round-trip-failed"
         ELSE IF r.bytes # SpecEncode(r.ref, r.inputs) THEN "encode-differs-from-specification"
         ELSE IF ~RoundTrip(r.ref, r.inputs) THEN "specification-round-trip-failed"
         ELSE ""
    [] OTHER -> "unknown-record"

Verdicts == [i \in 1..Len(Rec) |-> Judge(Rec[i])]
BadIdx == SelectSeq([i \in 1..Len(Rec) |-> i], LAMBDA i : Verdicts[i] \notin {"", "skip"})
Skipped == Len(SelectSeq(Verdicts, LAMBDA v : v = "skip"))

\* evaluated in a worker thread (deep stack for the recursive definitions), not as an ASSUME
VARIABLE done
Init == done = FALSE
Next == done' = TRUE
Spec == Init /\ [][Next]_done
Report == done => PrintT(<<"CODEC-RESULT",
                ToJson([records |-> Len(Rec), skipped |-> Skipped, bad |-> Len(BadIdx),
                        first |-> [i \in 1..(IF Len(BadIdx) < 5 THEN Len(BadIdx) ELSE 5) |->
                                     [why |-> Verdicts[BadIdx[i]], rec |-> Rec[BadIdx[i]]]]])>>)
=============================================================================
