#!/bin/bash
# development aid: merge the coverage profiles and list the uncovered source lines of /repo/src
cd /tmp/cov
NB=~/.rustup/toolchains/nightly-x86_64-unknown-linux-gnu/lib/rustlib/x86_64-unknown-linux-gnu/bin
$NB/llvm-profdata merge -sparse prof/*.profraw -o all.profdata
OBJS="harness/target/debug/drive -object harness/target/debug/codec -object harness/target/debug/builder -object harness/target/debug/timesync -object harness/target/debug/queue"
$NB/llvm-cov report -instr-profile=all.profdata $OBJS -ignore-filename-regex='(registry|rustc|harness|verif/|rustup)' 2>/dev/null | sed 's/  */ /g' | cut -d' ' -f1,4,10
$NB/llvm-cov export -format=lcov -instr-profile=all.profdata $OBJS -ignore-filename-regex='(registry|rustc|harness|verif/|rustup)' 2>/dev/null > all.lcov
python3 - <<'PY'
import re
cur=None; miss={}
for l in open('/tmp/cov/all.lcov'):
    l=l.strip()
    if l.startswith('SF:'): cur=l[3:]; miss[cur]=[]
    elif l.startswith('DA:'):
        a,b=l[3:].split(',')[:2]
        if int(b)==0: miss[cur].append(int(a))
for f,ls in miss.items():
    if not ls: continue
    # compress to ranges
    r=[]; s=p=ls[0]
    for x in ls[1:]:
        if x==p+1: p=x
        else: r.append((s,p)); s=p=x
    r.append((s,p))
    print(f, len(ls), ' '.join('%d-%d'%(a,b) if a!=b else str(a) for a,b in r))
PY
