#!/bin/bash
# tools_try_seed.sh <seed dir> <check ids...>: apply a seeded change to /repo, run checks, undo it
sd=$1; shift
cd /repo && git diff --quiet || { echo "/repo dirty"; exit 2; }
git -C /repo apply $sd/patch.diff || { echo "patch does not apply"; exit 2; }
for c in "$@"; do (cd /verif && ./check $c 2>&1 | grep -E "VIOLATION|KNOWN|detail|TOOL|\] (ok|FAIL)" | cut -c1-330 | head -8); done
git -C /repo checkout -- .
