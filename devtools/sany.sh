#!/bin/sh
cd /verif/spec && for m in "$@"; do tla-sany $m 2>&1 | grep -E "rror|Could not|Unknown|undefined|Was expecting|Encountered|line [0-9]+, col" | head -20; done
