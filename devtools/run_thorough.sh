#!/bin/bash
# runs the thorough tier of the given checks on the current tree, sequentially; summary in work/run_thorough.log
cd /verif
for c in "$@"; do
  s=$(date +%s)
  timeout 5400 ./check $c --tier thorough > /verif/work/thor_$c.out 2>&1; rc=$?
  e=$(date +%s)
  echo "$c rc=$rc $((e-s))s $(grep -c '^VIOLATION' /verif/work/thor_$c.out) violations; $(tail -1 /verif/work/thor_$c.out | cut -c1-160)" >> /verif/work/run_thorough.log
done
echo DONE >> /verif/work/run_thorough.log
