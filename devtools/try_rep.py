# try_rep.py <family> <n> <frames> <reps> [seed]: plans of one family repeated <reps> times, compared by Trace_Rep
import sys, random, os
sys.path.insert(0, os.path.dirname(os.path.dirname(os.path.abspath(__file__))))
from vlib import core, engines, plans
fam = getattr(plans, sys.argv[1]); n = int(sys.argv[2]); frames = int(sys.argv[3]); reps = int(sys.argv[4])
seed = int(sys.argv[5]) if len(sys.argv) > 5 else 1
core.build()
wd = core.workdir("T")
ps = plans.batch(seed * 77, n, frames, fam=fam)
for i, pl in enumerate(ps):
    path = os.path.join(wd, "rep_%03d.ndjson" % i)
    core.drive([pl] * reps, path)
    r = engines.rep_compare(path, os.path.join(wd, "mdrep_%03d" % i))
    o = core.validate_trace(path, os.path.join(wd, "mdrepo_%03d" % i))
    print(i, "diff", r["diff"], "calls", r["calls"], "viol", [(v[1], v[3]) for v in o["viol"]][:4],
          {k: o["stats"].get(k) for k in ("loads", "panics", "discInputs", "advances")})
