#!/bin/bash
# tools_benign_sandbox.sh <patch.diff> <suffix> [checks...]: false-alarm hunt - quick checks on a tree that carries a
# BENIGN change (one that keeps every listed property), in an isolated copy (/tmp/vb<suffix> + clone /tmp/repo_b<suffix>);
# any VIOLATION here is a false alarm of the machinery.  Summary -> work/benign.log
set -u
patch=$1; sfx=$2; shift 2
checks=${@:-C01 C02 C03 C04 C05 C06 C07 C08 C09 C10 C11 C12 C13 C14 C15 C16 C17 C18}
V=/tmp/vb$sfx; R=/tmp/repo_bs$sfx
rm -rf $R; git clone -q /repo $R || exit 2
git -C $R apply $patch || exit 2
mkdir -p $V
rsync -a --delete --exclude work --exclude harness/target --exclude .git --exclude evidence --exclude replays /verif/ $V/
mkdir -p $V/work $V/evidence $V/replays
sed -i "s#path = \"/repo\"#path = \"$R\"#" $V/harness/Cargo.toml
export VERIF_REPO=$R
for c in $checks; do
  s=$(date +%s)
  out=$(cd $V && ./check $c 2>&1); rc=$?
  e=$(date +%s)
  echo "benign=$(basename $patch) $c rc=$rc $((e-s))s violations=$(echo "$out" | grep -c '^VIOLATION') $(echo "$out" | grep -A1 '^VIOLATION' | grep detail | head -2 | cut -c1-260 | tr '\n' ' ') $(echo "$out" | grep 'TOOL ERROR' | head -1 | cut -c1-200)" | tee -a /verif/work/benign.log
done
