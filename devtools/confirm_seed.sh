#!/bin/bash
# confirm_seed.sh <id>  : verifies a seeded change delivered in /tmp/seed_<id> (patch.diff, demo.rs) inside the
# scratch worktree /tmp/wt_<id>.  The worktree is reset first (no git stash: stashes are shared between worktrees,
# parallel confirmations would mix them up).
id=$1; wt=/tmp/wt_$id; sd=/tmp/seed_$id
cd $wt || exit 2
export CARGO_TARGET_DIR=$wt/target
git checkout -q -- . ; rm -f tests/seed_demo.rs
echo "== $id: patch applies on clean checkout?"; git apply --check $sd/patch.diff && echo "applies: yes" || exit 1
git apply $sd/patch.diff
echo "== existing suite with change (demo excluded)"
cargo test --offline --workspace --no-fail-fast 2>&1 | grep -E "^test result|FAILED|^error" | sort | uniq -c | head -8
cp $sd/demo.rs tests/seed_demo.rs
echo "== demo with change (expect failure)"
cargo test --offline --test seed_demo 2>&1 | grep -E "^test result|^test .* (ok|FAILED)|^error" | head -8
echo "== demo without change (expect pass)"
git apply -R $sd/patch.diff && cargo test --offline --test seed_demo 2>&1 | grep -E "^test result|^test .* (ok|FAILED)|^error" | head -8; git apply $sd/patch.diff
