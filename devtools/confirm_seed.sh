#!/bin/bash
# confirm_seed.sh <id>  : verifies a seeded change in /tmp/wt_<id> (change + tests/seed_demo.rs in place)
id=$1; wt=/tmp/wt_$id; sd=/tmp/seed_$id
cd $wt || exit 2
export CARGO_TARGET_DIR=$wt/target
echo "== $id: patch applies on clean checkout?"; git stash -q -u; git apply --check $sd/patch.diff && echo "applies: yes"; git stash pop -q
echo "== existing suite with change (demo excluded)"
mv tests/seed_demo.rs /tmp/seed_demo_$id.rs
cargo test --offline --workspace 2>&1 | grep -E "^test result|FAILED|error" | sort | uniq -c | head -5
mv /tmp/seed_demo_$id.rs tests/seed_demo.rs
echo "== demo with change (expect failure)"
cargo test --offline --test seed_demo 2>&1 | grep -E "^test result|^test .* (ok|FAILED)" | head -8
echo "== demo without change (expect pass)"
git apply -R $sd/patch.diff && cargo test --offline --test seed_demo 2>&1 | grep -E "^test result|^test .* (ok|FAILED)" | head -8; git apply $sd/patch.diff
