import sys, random, os
sys.path.insert(0, os.path.dirname(os.path.dirname(os.path.abspath(__file__))))
from vlib import core, engines, plans
n = int(sys.argv[1]); props = set(sys.argv[2].split(','))
res = core.Result("T", "quick", 1); wd = core.workdir("T"); rng = random.Random(5)
ps = [plans.mis3(rng, 40, i=i) for i in range(n)]
outs = engines.obs_runs(res, "T", ps, props, wd, "t")
print(len(res.violations), [(v['family'], v['prop'], v['code'], v['replay'][-20:]) for v in res.violations[:20]])
