#!/bin/bash
# run_lanes.sh: every quick check on the current tree in three parallel lanes; summary in work/run_all.log
cd /verif; mkdir -p work; : > work/run_all.log
lane() { for c in "$@"; do s=$(date +%s); ./check $c > work/run_$c.out 2>&1; rc=$?; e=$(date +%s)
  echo "$c rc=$rc $((e-s))s $(grep -c '^VIOLATION' work/run_$c.out) violations; $(tail -1 work/run_$c.out | cut -c1-160)" >> work/run_all.log; done; }
lane C02 C13 C16 C18 C14 C15 &
lane C04 C05 C03 C12 C17 &
lane C10 C11 C01 C06 C07 C08 C09 &
wait; echo DONE >> work/run_all.log
