#!/bin/bash
# tools_try_all_seeds.sh [seed names...]: apply each seeded change to /repo, run the check of its property, undo it.
# Summary lines go to work/seeds.log .  (/repo must be clean; nothing else may build meanwhile.)
cd /verif
names=${@:-$(ls seeded)}
for n in $names; do
  prop=${n%%_*}
  out=$(/verif/devtools/tools_try_seed.sh /verif/seeded/$n $prop 2>&1)
  nv=$(echo "$out" | grep -c '^VIOLATION')
  first=$(echo "$out" | grep -A1 '^VIOLATION' | grep detail | head -1 | cut -c1-200)
  tool=$(echo "$out" | grep -c -E 'TOOL ERROR|patch does not apply|/repo dirty')
  echo "$n -> $prop: violations=$nv toolerr=$tool $first" | tee -a /verif/work/seeds.log
done
