#!/bin/bash
# tools_seed_sandbox.sh <seed names...>: test seeded changes WITHOUT touching /repo or /verif's evidence:
# a copy of /verif (/tmp/vseed) is bound to a clone of /repo (/tmp/repo_seed); every seed is applied there, the
# check of its property runs from the copy, the patch is reverted.  Summary lines -> /verif/work/seeds.log
# (development tool only - no registered command depends on it)
set -u
SFX=${SEED_SFX:-}; V=/tmp/vseed$SFX; R=/tmp/repo_seed$SFX
rm -rf $R; git clone -q /repo $R || exit 2
mkdir -p $V
rsync -a --delete --exclude work --exclude harness/target --exclude .git --exclude evidence --exclude replays /verif/ $V/
mkdir -p $V/work $V/evidence $V/replays
sed -i "s#path = \"/repo\"#path = \"$R\"#" $V/harness/Cargo.toml
export VERIF_REPO=$R
for n in "$@"; do
  prop=${n%%_*}
  if ! git -C $R apply ${SEED_DIR:-/verif/seeded}/$n/patch.diff; then echo "$n -> $prop: patch does not apply" | tee -a /verif/work/seeds.log; continue; fi
  out=$(cd $V && ./check $prop 2>&1)
  git -C $R checkout -q -- .
  nv=$(echo "$out" | grep -c '^VIOLATION')
  first=$(echo "$out" | grep -A1 '^VIOLATION' | grep detail | head -1 | cut -c1-220)
  tool=$(echo "$out" | grep -c -E 'TOOL ERROR')
  echo "$n -> $prop [sandbox]: violations=$nv toolerr=$tool $first" | tee -a /verif/work/seeds.log
done
