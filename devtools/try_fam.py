import sys, random
import os; sys.path.insert(0, os.path.dirname(os.path.dirname(os.path.abspath(__file__))))
from vlib import core, engines, plans
fam=getattr(plans, sys.argv[1]); n=int(sys.argv[2]); frames=int(sys.argv[3]); props=set(sys.argv[4].split(','))
res=core.Result("T","quick",int(sys.argv[5]) if len(sys.argv)>5 else 1)
wd=core.workdir("T")
ps=plans.batch(res.seed*77, n, frames, fam=fam)
engines.obs_runs(res,"T",ps,props,wd,"t")
print(len(res.violations), [ (v['prop'],v['code'],v['detail']) for v in res.violations[:6]])
print(res.extra.get('trace_stats'))
