#!/bin/bash
# tools_multi_seed.sh <seed> [checks...]: run checks with another VERIF_SEED on the unchanged tree (false-alarm hunt)
seed=$1; shift
checks=${@:-C01 C02 C03 C04 C05 C06 C07 C08 C09 C10 C11 C12 C13 C14 C15 C16 C17 C18}
./check setup >/dev/null 2>&1
for c in $checks; do
  VERIF_SEED=$seed ./check $c > ms_$c.out 2>&1; rc=$?
  echo "seed=$seed $c rc=$rc $(grep -c '^VIOLATION' ms_$c.out) violations; $(tail -1 ms_$c.out | cut -c1-150)"
  grep -A1 '^VIOLATION' ms_$c.out | grep detail | cut -c1-300 | sort | uniq -c | head -5
done
