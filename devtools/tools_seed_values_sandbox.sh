#!/bin/bash
# tools_seed_values_sandbox.sh <VERIF_SEED> [checks...]: false-alarm hunt - every quick check on the CLEAN tree with
# another VERIF_SEED, in an isolated copy (/tmp/vms bound to a clone /tmp/repo_ms); summary -> work/multiseed.log
set -u
sd=$1; shift
checks=${@:-C01 C02 C03 C04 C05 C06 C07 C08 C09 C10 C11 C12 C13 C14 C15 C16 C17 C18}
V=/tmp/vms; R=/tmp/repo_ms
rm -rf $R; git clone -q /repo $R || exit 2
mkdir -p $V
rsync -a --delete --exclude work --exclude harness/target --exclude .git --exclude evidence --exclude replays /verif/ $V/
mkdir -p $V/work $V/evidence $V/replays
sed -i "s#path = \"/repo\"#path = \"$R\"#" $V/harness/Cargo.toml
export VERIF_REPO=$R VERIF_SEED=$sd
for c in $checks; do
  s=$(date +%s)
  out=$(cd $V && ./check $c --seed $sd 2>&1); rc=$?
  e=$(date +%s)
  echo "seed=$sd $c rc=$rc $((e-s))s violations=$(echo "$out" | grep -c '^VIOLATION') $(echo "$out" | grep -A1 '^VIOLATION' | grep detail | head -2 | cut -c1-260 | tr '\n' ' ') $(echo "$out" | grep 'TOOL ERROR' | head -1 | cut -c1-200)" | tee -a /verif/work/multiseed.log
done
