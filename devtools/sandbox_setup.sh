#!/bin/bash
# sandbox_setup.sh <suffix> [patch...]: copy of /verif in /tmp/vx<suffix> bound to a clone of /repo in /tmp/repo_x<suffix>
# with the given patches applied (development aid; prints the directory to cd into)
set -u
sfx=$1; shift
V=/tmp/vx$sfx; R=/tmp/repo_x$sfx
rm -rf $R; git clone -q /repo $R || exit 2
for p in "$@"; do git -C $R apply $p || exit 2; done
mkdir -p $V
rsync -a --delete --exclude work --exclude harness/target --exclude .git --exclude evidence --exclude replays /verif/ $V/
mkdir -p $V/work $V/evidence $V/replays
sed -i "s#path = \"/repo\"#path = \"$R\"#" $V/harness/Cargo.toml
echo "export VERIF_REPO=$R; cd $V"
