import sys, random, os, json
sys.path.insert(0,'/verif')
from vlib import core, engines, plans, props
res=core.Result("T","quick",int(sys.argv[1]) if len(sys.argv)>1 else 1); wd=core.workdir("TK")
rng=random.Random(res.seed*1000+77)
ps=[props._spec_kick_plan(rng, rng.choice([60,120])) for _ in range(16)]
engines.obs_runs(res,"T",ps,{"C03","C07","C01","C06","C12","C18"},wd,"tk")
print(len(res.violations), [(v['prop'],v['code'],v['detail']) for v in res.violations[:8]])
print(res.extra.get('trace_stats'))
