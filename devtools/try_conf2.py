import sys, random, os, json
sys.path.insert(0,'/verif')
from vlib import core, engines, plans, props
fn=getattr(props, sys.argv[1]); n=int(sys.argv[2]); frames=int(sys.argv[3]); seed=int(sys.argv[4]) if len(sys.argv)>4 else 1
core.build(); wd=core.workdir("TC2"); rng=random.Random(seed)
ps=[fn(rng, frames) for _ in range(n)]
def one(job):
    i,pl=job
    path=os.path.join(wd,"tc_%03d.ndjson"%i)
    pl=dict(pl); pl["frames"]=min(pl["frames"],frames+60)
    core.drive([pl], path, detail=2)
    return i, path, engines.validate_sys(path, os.path.join(wd,"md_%03d"%i))
for i,path,r in core.parallel(one, list(enumerate(ps)), n=6):
    print(i, r['lines'], 'drift=',json.dumps(r['drift'])[:300], 'viol=',json.dumps(r['viol'])[:200])
