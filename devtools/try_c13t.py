import sys, random, os, json
sys.path.insert(0, os.path.dirname(os.path.dirname(os.path.abspath(__file__))))
from vlib import core, engines, plans, props
res = core.Result("T", "quick", 1); wd = core.workdir("T"); rng = random.Random(3)
core.build()
tps = []
for cd in range(2, 6):
    for k in range(2, cd + 2):
        p = props._st_plan(rng, 120, glitch=True)
        p["cfg"]["window"] = max(p["cfg"]["window"], cd + 1); p["cfg"]["check_distance"] = cd
        p["cfg"]["glitch_k"] = k; p["cfg"]["glitch_frame"] = rng.randrange(cd + 1, 120 - cd - 8)
        p["cfg"]["glitch_transient"] = True
        tps.append(p)
engines.obs_runs(res, "T", tps, {"C13", "C02"}, wd, "t", batch=4)
print(len(tps), len(res.violations), [(v['prop'], v['code'], v['detail']) for v in res.violations[:8]])
print({k: res.extra['trace_stats'].get(k) for k in ('loads', 'advances', 'panics')})
