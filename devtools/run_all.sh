#!/bin/bash
# runs every check on the current tree, sequentially; summary in /verif/work/run_all.log
cd /verif
: > /verif/work/run_all.log
for c in C01 C02 C03 C04 C05 C06 C07 C08 C09 C10 C11 C12 C13 C14 C15 C16 C17 C18; do
  s=$(date +%s)
  ./check $c > /verif/work/run_$c.out 2>&1; rc=$?
  e=$(date +%s)
  echo "$c rc=$rc $((e-s))s $(grep -c VIOLATION /verif/work/run_$c.out) violations; $(tail -1 /verif/work/run_$c.out | cut -c1-160)" >> /verif/work/run_all.log
done
echo DONE >> /verif/work/run_all.log
