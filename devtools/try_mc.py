import sys, json
sys.path.insert(0,'/verif')
from vlib import core, engines
name=sys.argv[1]; over=json.loads(sys.argv[2]); to=int(sys.argv[3]) if len(sys.argv)>3 else 150
res=core.Result("T","quick",1); wd=core.workdir("TMC")
import time; t=time.time()
try:
    held, cex = engines.mc_system(res, wd, name, over, timeout=to)
    print("held",held, res.models[-1] if hasattr(res,'models') else '', "%.0fs"%(time.time()-t))
    if cex: print(json.dumps(cex)[:1500])
except Exception as e:
    print("ERR", str(e)[-1500:], "%.0fs"%(time.time()-t))
