import sys, random, os, json
sys.path.insert(0,'/verif')
from vlib import core, engines, plans, props
res=core.Result("T","quick",int(sys.argv[1]) if len(sys.argv)>1 else 1); wd=core.workdir("TD")
rng=random.Random(res.seed*1000+31)
ps=[props._drop_plan(rng, rng.choice([60,120])) for _ in range(24)]
engines.obs_runs(res,"T",ps,{"C03","C07","C01"},wd,"td")
print(len(res.violations), [(v['prop'],v['code'],v['detail']) for v in res.violations[:6]])
