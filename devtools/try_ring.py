import sys, random, os, json
sys.path.insert(0,'/verif')
from vlib import core, engines, plans, props
res=core.Result("T","quick",1); wd=core.workdir("TR")
rng=random.Random(5)
ring=[props._ring_plan(rng,k,1+k%2) for k in range(54,67)]
engines.obs_runs(res,"T",ring,{"C06"},wd,"ring")
print(len(res.violations), [(v['prop'],v['code'],v['detail']) for v in res.violations[:6]])
st=res.extra.get('trace_stats'); print(st)
