#!/bin/bash
# development aid: line coverage of /repo/src under all quick checks (instrumented harness in /tmp/cov)
V=/tmp/vcov
mkdir -p $V; rsync -a --delete --exclude work --exclude harness/target --exclude .git --exclude evidence --exclude replays /verif/ $V/
mkdir -p $V/work $V/evidence $V/replays /tmp/cov/prof
rm -f /tmp/cov/prof/*
export VERIF_BIN=/tmp/cov/harness/target/debug
export LLVM_PROFILE_FILE=/tmp/cov/prof/h-%8m.profraw
cd $V
for c in "$@"; do ./check $c > $V/work/cov_$c.out 2>&1; echo "$c rc=$? $(tail -1 $V/work/cov_$c.out | cut -c1-120)"; done
