"""Scenario plan generators for the random (impl -> spec) driver.  Every plan is fully
determined by the seed; the Rust driver makes no decision that is not a logged schedule step."""
import random


def topology(rng, npeers=None, max_locals=2, spectators=0):
    """2-4 peers with 1-2 local players each (+ spectators attached to random hosts)."""
    n = npeers or rng.choice([2, 2, 3, 3, 4])
    peers = []
    h = 0
    for _ in range(n):
        k = rng.choice([1, 1, 2]) if max_locals >= 2 else 1
        peers.append({"kind": "p2p", "locals": list(range(h, h + k)), "delay": 0, "host": 0})
        h += k
    for _ in range(spectators):
        peers.append({"kind": "spec", "locals": [], "delay": 0, "host": rng.randrange(n)})
    return h, peers


def general(rng, frames, **over):
    """The C01 space: topology, window>=1, delays, sparse, predictor, loss/dup/reorder."""
    players, peers = topology(rng, over.pop("npeers", None), over.pop("max_locals", 2),
                              over.pop("spectators", 0))
    window = over.pop("window", None)
    if window is None:
        window = rng.choice([1, 2, 3, 4, 6, 8, 8, 12])
    for p in peers:
        if p["kind"] == "p2p":
            p["delay"] = rng.choice([0, 0, 1, 2, 3, 4])
    cfg = {
        "players": players,
        "window": window,
        "sparse": rng.random() < 0.4,
        "predictor": rng.choice(["repeat", "repeat", "default"]),
        "desync": rng.choice([0, 0, 1, 3, 7, 12]),
        "fps": 60,
        "timeout": 2000,
        "notify": 500,
        "max_behind": rng.choice([2, 5, 10]),
        "catchup": rng.choice([1, 2, 4]),
        "max_delay": 8,
        "peers": peers,
    }
    n = len(peers)
    base = rng.choice([16, 16, 16, 20, 33])
    tick = [base for _ in range(n)]
    # relative speeds: some peers run slower / faster
    for i in range(n):
        if rng.random() < 0.4:
            tick[i] = max(4, base + rng.choice([-6, -3, -1, 1, 2, 5, 9]))
    lat_lo = rng.choice([0, 2, 5, 20, 40])
    plan = {
        "seed": rng.randrange(1 << 30),
        "frames": frames,
        "cfg": cfg,
        "tick_ms": tick,
        "jitter": rng.choice([0, 2, 5, 12]),
        "lat_lo": lat_lo,
        "lat_hi": lat_lo + rng.choice([0, 5, 30, 80]),
        "loss": rng.choice([0.0, 0.02, 0.08, 0.2, 0.35]),
        "dup": rng.choice([0.0, 0.0, 0.05, 0.2]),
        "alphabet": rng.choice([2, 4, 16]),
        "change": rng.choice([0.05, 0.3, 0.7, 1.0]),
        "p_poll": rng.choice([0.0, 0.0, 0.3]),
        "p_pause": rng.choice([0.0, 0.0, 0.01]),
        "pause_ms": rng.choice([100, 300]),
        "drain": True,
        "max_ms": 120000 + frames * 120,
        "settle_ms": 400,
    }
    cfg.update(over.pop("cfg", {}))
    plan.update(over)
    return plan


def batch(seed, n, frames, fam=general, **over):
    rng = random.Random(seed)
    return [fam(rng, frames, **dict(over)) for _ in range(n)]


def tight(rng, frames, **over):
    """Latency about as long as the prediction window, every input mispredicted: calls stall at the
    prediction limit and the awaited inputs arrive one or two frames at a time, so rollbacks are
    shallow and hit frames at which a stall just happened."""
    w = over.pop("window", None) or rng.choice([1, 2, 2, 3, 4])
    p = general(rng, frames, window=w, npeers=over.pop("npeers", 2), **over)
    for pc in p["cfg"]["peers"]:
        pc["delay"] = rng.choice([0, 0, 0, 1])
    p["tick_ms"] = [16 for _ in p["tick_ms"]]
    if rng.random() < 0.5:
        p["tick_ms"][rng.randrange(len(p["tick_ms"]))] = rng.choice([15, 17, 18])
    base = 16 * w
    p["lat_lo"] = max(0, base - rng.choice([4, 10, 20]))
    p["lat_hi"] = base + rng.choice([4, 10, 20])
    p["jitter"] = rng.choice([0, 1, 3])
    p["loss"] = rng.choice([0.0, 0.0, 0.05, 0.15])
    p["dup"] = 0.0
    p["alphabet"] = 16
    p["change"] = rng.choice([0.6, 1.0])
    p["p_pause"] = 0.0
    p["p_poll"] = rng.choice([0.0, 0.3])
    return p


def delays(rng, frames, **over):
    """Run-time input-delay changes 0..max_delay at random ticks (C11)."""
    p = general(rng, frames, **over)
    p["p_delay"] = rng.choice([0.02, 0.05, 0.15])
    p["max_delay"] = rng.choice([2, 4, 6])
    p["cfg"]["max_delay"] = 8
    p["loss"] = rng.choice([0.0, 0.05])
    return p


def drop3(rng, frames, **over):
    """3-4 peers (rollback mode), one dies at a random frame; links have different latencies and
    loss so that the survivors hold different amounts of its input at that moment (C10)."""
    n = rng.choice([3, 3, 4])
    p = general(rng, frames + 150, npeers=n, max_locals=1, window=over.pop("window", None) or rng.choice([1, 2, 4, 8, 8]),
                **over)
    p["cfg"]["timeout"] = rng.choice([600, 1000])
    p["cfg"]["notify"] = 300
    p["cfg"]["desync"] = 0
    victim = rng.randrange(n)
    p["kills"] = [{"p": victim, "at_frame": rng.randrange(10, frames)}]
    p["tick_ms"] = [16] * n
    p["jitter"] = rng.choice([0, 3, 8])
    p["lat_lo"] = rng.choice([2, 10])
    p["lat_hi"] = rng.choice([10, 40, 90])
    p["loss"] = rng.choice([0.0, 0.05, 0.2])
    p["p_pause"] = 0.0
    p["settle_ms"] = p["cfg"]["timeout"] + 2500
    p["max_ms"] = 90000
    return p


def misuse(rng, frames, **over):
    """Otherwise valid runs with API misuse calls inserted at random points (C16)."""
    p = general(rng, frames, spectators=rng.choice([0, 1]), **over)
    p["p_misuse"] = rng.choice([0.05, 0.2])
    p["cfg"]["inputs_by_frame"] = 4
    p["loss"] = rng.choice([0.0, 0.1])
    return p


def gossip3(rng, frames, **over):
    """Three peers, lossless links with latency; one dies, survivor 0 disconnects it explicitly a few frames
    later and the other survivor learns the drop only through gossip - in the same packets that carry
    survivor 0's (mispredicted) new inputs.  Both survivors end up with the same amount of the dead peer's
    input, so the unchanged library must make them agree."""
    p = general(rng, frames + 120, npeers=3, max_locals=1, window=8, **over)
    p["cfg"]["timeout"] = 8000
    p["cfg"]["notify"] = 4000
    p["cfg"]["desync"] = 0
    p["cfg"]["sparse"] = rng.random() < 0.3
    at = rng.randrange(15, frames)
    p["kills"] = [{"p": 2, "at_frame": at}]
    # late enough for the dead peer's last packets (latency <= 70 ms) to have reached both survivors
    p["discs"] = [{"p": 0, "h": 2, "at_frame": at + rng.choice([6, 7])}]
    p["tick_ms"] = [16, 16, 16]
    p["jitter"] = rng.choice([0, 2])
    p["lat_lo"] = rng.choice([20, 30])
    p["lat_hi"] = p["lat_lo"] + rng.choice([0, 20, 40])
    p["loss"] = 0.0
    p["dup"] = 0.0
    p["alphabet"] = 16
    p["change"] = 1.0
    p["p_pause"] = 0.0
    p["p_poll"] = 0.0
    p["settle_ms"] = 2500
    p["after_drop_progress"] = 30
    p["max_ms"] = 60000
    for pc in p["cfg"]["peers"]:
        pc["delay"] = 0
    return p


def slowhs(rng, frames, **over):
    """A handshake over a very slow link (one-way latency above a second): several requests are outstanding when
    the replies to the oldest ones arrive; every answered request that was really issued counts (C12), whatever
    order the outstanding numbers are kept in (C17)."""
    p = general(rng, frames, npeers=over.pop("npeers", 2), spectators=over.pop("spectators", rng.choice([0, 1])), **over)
    p["cfg"]["timeout"] = 12000
    p["cfg"]["notify"] = 6000
    p["cfg"]["desync"] = 0
    p["lat_lo"] = rng.choice([1100, 1300, 1700])
    p["lat_hi"] = p["lat_lo"] + rng.choice([0, 0, 150])
    p["jitter"] = 0
    p["loss"] = rng.choice([0.0, 0.0, 0.1])
    p["dup"] = 0.0
    p["p_pause"] = 0.0
    p["tick_ms"] = [16 for _ in p["tick_ms"]]
    p["max_ms"] = 200000
    return p


def mis3(rng, frames, i=0, **over):
    """Three peers A B C, lossless.  C dies (both survivors hold the same amount of its input); a little later A
    misses B's packets for a few frames and mispredicts them; A disconnects C explicitly in (about) the call in
    which B's inputs arrive again, so one advance_frame has two reasons to roll back: C's cut-off (earlier) and B's
    first mispredicted frame (later).  The final timeline must be Disconnected from the cut-off on (C07, C10)."""
    p = general(rng, frames + 60, npeers=3, max_locals=1, window=8, **over)
    p["cfg"]["timeout"] = 8000
    p["cfg"]["notify"] = 4000
    p["cfg"]["desync"] = 0
    p["cfg"]["sparse"] = rng.random() < 0.25
    perm = [0, 1, 2]
    rng.shuffle(perm)
    a, b, c = perm
    f = rng.randrange(12, max(13, frames))
    # the alignment (B's inputs back in the very call that follows the disconnect) is swept systematically
    out = 3 + (i // 9) % 2
    g = 1                                      # B's outage starts g frames after C's death
    delta = i % 3
    adj = [-8, 0, 8][(i // 3) % 3]
    p["kills"] = [{"p": c, "at_frame": f}]
    p["cuts"] = [{"from": b, "to": a, "at_frame": f + g, "len": 16 * out + adj}]
    p["discs"] = [{"p": a, "h": c, "at_frame": f + g + out + delta}]
    p["tick_ms"] = [16, 16, 16]
    p["jitter"] = 0
    p["lat_lo"] = rng.choice([2, 5])
    p["lat_hi"] = p["lat_lo"]
    p["loss"] = 0.0
    p["dup"] = 0.0
    p["alphabet"] = 16
    p["change"] = 1.0
    p["p_pause"] = 0.0
    p["p_poll"] = 0.0
    p["settle_ms"] = 1200
    p["after_drop_progress"] = 30
    p["max_ms"] = 40000
    for pc in p["cfg"]["peers"]:
        pc["delay"] = 0
    return p


def stale3(rng, frames, **over):
    """Three peers A B C, dense saving.  A loses B's packets for a few frames and mispredicts them while C's inputs keep
    coming; when the link heals A re-simulates frames that are all confirmed by then.  C's link to B is cut a little
    before C dies, so B holds one or two frames less of C than A; B disconnects C explicitly and A, adopting B's
    earlier cut-off, rolls back to its confirmed frame (or the one before): the cell it loads must hold the
    re-simulated state, not the abandoned one (C02: disconnect-driven rollbacks reach confirmed frames)."""
    p = general(rng, frames + 60, npeers=3, max_locals=1, window=8, **over)
    p["cfg"]["timeout"] = 8000
    p["cfg"]["notify"] = 4000
    p["cfg"]["desync"] = 0
    p["cfg"]["sparse"] = False
    perm = [0, 1, 2]
    rng.shuffle(perm)
    a, b, c = perm
    f = rng.randrange(12, max(13, frames))
    out = rng.choice([3, 4, 5])                # frames of B that A misses
    k = f + out + rng.choice([0, 1])           # C's last frame
    p["cuts"] = [{"from": b, "to": a, "at_frame": f, "len": 16 * out + 4},
                 {"from": c, "to": b, "at_frame": k - rng.choice([1, 2])}]
    p["kills"] = [{"p": c, "at_frame": k}]
    p["discs"] = [{"p": b, "h": c, "at_frame": k + rng.choice([2, 3, 4])}]
    p["tick_ms"] = [16, 16, 16]
    p["jitter"] = 0
    p["lat_lo"] = rng.choice([2, 5])
    p["lat_hi"] = p["lat_lo"]
    p["loss"] = 0.0
    p["dup"] = 0.0
    p["alphabet"] = 16
    p["change"] = 1.0
    p["p_pause"] = 0.0
    p["p_poll"] = 0.0
    p["settle_ms"] = 400
    p["max_ms"] = 30000
    for pc in p["cfg"]["peers"]:
        pc["delay"] = 0
    return p


def gossip4(rng, frames, **over):
    """Four peers A B C D, lossless links.  D's links are cut one after the other (C first, then B, then A), C's
    link to A is cut as well (so A keeps the frames it needs), D dies and B disconnects it explicitly: A then hears
    'disconnected at Lb' from B while its last news from C says 'connected at Lc' with Lc < Lb < A's own view.  The
    frame A cuts D off at must be the minimum over all reports whatever order its endpoints are visited in (C17)."""
    p = general(rng, frames + 60, npeers=4, max_locals=1, window=8, **over)
    p["cfg"]["timeout"] = 8000
    p["cfg"]["notify"] = 4000
    p["cfg"]["desync"] = 0
    p["cfg"]["sparse"] = False
    perm = [0, 1, 2, 3]
    rng.shuffle(perm)
    a, b, c, d = perm
    f = rng.randrange(12, max(13, frames))
    g1, g2 = rng.choice([(2, 4), (1, 3), (2, 3), (3, 5)])
    p["cuts"] = [{"from": d, "to": c, "at_frame": f}, {"from": c, "to": a, "at_frame": f},
                 {"from": d, "to": b, "at_frame": f + g1}, {"from": d, "to": a, "at_frame": f + g2}]
    p["kills"] = [{"p": d, "at_frame": f + g2 + 1}]
    p["discs"] = [{"p": b, "h": d, "at_frame": f + g1 + rng.choice([4, 5, 6])}]
    p["tick_ms"] = [16, 16, 16, 16]
    p["jitter"] = 0
    p["lat_lo"] = rng.choice([5, 20])
    p["lat_hi"] = p["lat_lo"]
    p["loss"] = 0.0
    p["dup"] = 0.0
    p["alphabet"] = 16
    p["change"] = 1.0
    p["p_pause"] = 0.0
    p["p_poll"] = 0.0
    p["settle_ms"] = 600
    p["max_ms"] = 30000
    for pc in p["cfg"]["peers"]:
        pc["delay"] = 0
    return p


def lockwait(rng, frames, **over):
    """Lockstep sessions (window 0) driven through advance_frame_with_wait_timeout: a stalled call polls for
    up to wait_ms while packets arrive, and advances in the same call once the frame is confirmed."""
    n = over.pop("npeers", None) or rng.choice([2, 2, 3])
    p = general(rng, frames, npeers=n, window=0, spectators=over.pop("spectators", rng.choice([0, 0, 1])), **over)
    w = rng.choice([1, 3, 8, 16, 40, 0, 0])
    if w == 0:
        # advance_frame_with_wait(): one frame duration, 1_000_000 / fps microseconds; on the millisecond
        # clock the loop runs while now < deadline, i.e. for ceil(micros / 1000) iterations
        fps = rng.choice([60, 60, 30, 50])
        p["cfg"]["fps"] = fps
        w = (1000000 // fps + 999) // 1000
        p["wait_default"] = True
    p["wait_ms"] = w
    p["cfg"]["wait_ms"] = w
    p["cfg"]["waitapi"] = True
    p["cfg"]["desync"] = 0
    p["tick_ms"] = [16 for _ in p["tick_ms"]]
    if rng.random() < 0.5:
        p["tick_ms"][rng.randrange(len(p["tick_ms"]))] = rng.choice([14, 17, 20])
    p["lat_lo"] = rng.choice([0, 1, 3, 10])
    p["lat_hi"] = p["lat_lo"] + rng.choice([0, 3, 12, 30])
    p["loss"] = rng.choice([0.0, 0.0, 0.05, 0.2])
    p["p_pause"] = 0.0
    return p


def with_stats(rng, frames, **over):
    """General runs in which network_stats() is queried at random points (also before enough data exists)."""
    p = general(rng, frames, npeers=over.pop("npeers", 2), spectators=rng.choice([0, 1]), **over)
    p["p_stats"] = rng.choice([0.05, 0.2])
    return p


def wide(rng, frames, **over):
    """The general space with four-byte inputs (cfg.wide): the endpoints join / split several bytes per player."""
    p = general(rng, frames, **over)
    p["cfg"]["wide"] = True
    return p
