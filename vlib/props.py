"""Per-property checks.  Each function fills a core.Result; `check` turns it into evidence,
KNOWN-FINDING / VIOLATION lines and the exit code."""
import json
import os
import random

from . import core, engines, plans

ROLLBACK_PROPS = {"C01", "C02", "C03", "C04"}


def sizes(tier, quick, thorough):
    return thorough if tier == "thorough" else quick


def model_session(res, wd, pid, variants, props):
    """Exhaustive model checking of System.tla for the given constant variants; every model
    counterexample is replayed on the real sessions before it counts."""
    for name, over in variants:
        held, cex = engines.mc_system(res, wd, name, over, timeout=900 if res.tier == "quick" else 2700)
        if not held:
            engines.confirm_on_impl(res, pid, wd, name, cex, props)


def _rollback_nontrivial(st, plan):
    return st["loads"] >= 1 and st["maxDepth"] >= 2 and st["verified"] >= 20


SESSION_MODELS_QUICK = [
    ("s2_w2", {"Window": 2, "MaxFrame": 3}),
]
SESSION_MODELS_THOROUGH = [
    ("s2_w2", {"Window": 2, "MaxFrame": 4}),
    ("s2_w1", {"Window": 1, "MaxFrame": 4}),
    ("s2_w2_sparse", {"Window": 2, "MaxFrame": 3, "Sparse": "TRUE"}),
    ("s2_w2_preddef", {"Window": 2, "MaxFrame": 3, "PredDefault": "TRUE"}),
    ("s2_w2_delay", {"Window": 2, "MaxFrame": 3, "Peers": "GenPeers2d"}),
    ("s2_w2_cap2", {"Window": 2, "MaxFrame": 3, "LinkCap": 2, "InboxCap": 1}),
]


# ---------------------------------------------------------------------------------------------
# C01 - C04: rollback core
# ---------------------------------------------------------------------------------------------

def c01(res, wd):
    model_session(res, wd, "C01", sizes(res.tier, SESSION_MODELS_QUICK, SESSION_MODELS_THOROUGH), {"C01"})
    ns, depth = sizes(res.tier, (10, 90), (80, 140))
    engines.s2i_runs(res, "C01", wd, "g2", {"MaxFrame": 8, "MaxSteps": depth - 10}, ns, depth, {"C01"})
    engines.s2i_runs(res, "C01", wd, "g21", {"Peers": "GenPeers21", "NumPlayers": 3, "MaxFrame": 8,
                                             "MaxSteps": depth - 10}, ns // 2, depth, {"C01"})
    n, frames = sizes(res.tier, (14, 500), (120, 2500))
    ps = plans.batch(res.seed * 1000 + 1, n, frames)
    # long runs that wrap the 128-slot input ring, the cell ring and the time-sync window
    nl, fl = sizes(res.tier, (2, 2000), (6, 12000))
    ps += plans.batch(res.seed * 1000 + 2, nl, fl, p_pause=0.0)
    ps += plans.batch(res.seed * 1000 + 9, sizes(res.tier, 6, 40), 300, fam=plans.tight)
    # four-byte inputs: endpoints join / split several bytes per player (the first conformance sample is one of them)
    ps = plans.batch(res.seed * 1000 + 13, sizes(res.tier, 5, 30), 300, fam=plans.wide) + ps
    engines.obs_runs(res, "C01", ps, {"C01"}, wd, "c01", nontrivial=_rollback_nontrivial)
    engines.conform_sample(res, "C01", ps, wd, "c01", sizes(res.tier, 3, 12))
    res.rule = ("(1) exhaustive TLC exploration of System.tla (2 peers, inputs {0,1}, every tick interleaving, "
                "loss/arbitrary delay per link) with the monitor as invariant; (2) TLC-simulated schedules replayed "
                "on the real sessions and checked by Trace_Sys (conformance) and Trace_Obs (property); (3) random "
                "scenarios (2-4 peers, 1-2 local players each, window 1..12, delays 0..4, sparse on/off, both "
                "predictors, loss/dup/reorder, unequal tick rates) on the real sessions, every line judged by the "
                "TLA+ monitor.  A run is non-trivial if it contained >=1 rollback of depth >=2 and >=20 frames "
                "were verified final (random runs) or >=1 rollback/stall (replayed schedules)")
    res.assumptions += ["the user executes request lists in order (harness game)",
                        "faults stay below the disconnect timeout in these families",
                        "exhaustive results hold for the stated small constants only"]


def c02(res, wd):
    model_session(res, wd, "C02", sizes(res.tier, SESSION_MODELS_QUICK, SESSION_MODELS_THOROUGH), {"C02"})
    ns, depth = sizes(res.tier, (10, 90), (60, 140))
    engines.s2i_runs(res, "C02", wd, "g2s", {"MaxFrame": 8, "Sparse": "TRUE", "MaxSteps": depth - 10},
                     ns, depth, {"C02"})
    n, frames = sizes(res.tier, (8, 400), (60, 2000))
    # sparse saving + small windows + a slow peer: stalls at the prediction limit and deep rollbacks
    ps = plans.batch(res.seed * 1000 + 3, n, frames, cfg={"sparse": True}, loss=0.2)
    ps += plans.batch(res.seed * 1000 + 4, n, frames, window=random.Random(res.seed).choice([1, 2, 3]),
                      loss=0.3, lat_lo=40, lat_hi=120)
    ps += plans.batch(res.seed * 1000 + 5, max(2, n // 2), frames, spectators=1, npeers=2)
    # stalls immediately followed by shallow rollbacks (latency ~ window, every input mispredicted)
    ps += plans.batch(res.seed * 1000 + 10, sizes(res.tier, 10, 60), 300, fam=plans.tight)
    engines.obs_runs(res, "C02", ps, {"C02"}, wd, "c02",
                     nontrivial=lambda st, pl: st["loads"] >= 1 and (st["stalls"] >= 1 or st["maxDepth"] >= 2))
    # disconnect-driven rollbacks that reach confirmed frames: a survivor adopts the earlier cut-off another peer
    # reports and loads its confirmed frame (or the one before).  The survivors' views differ by construction, so these
    # runs end in the panic of known finding KF-C10 (judged by C10's check, not here); what C02 demands of them is
    # that every load before that finds the cell of the current timeline.
    engines.obs_runs(res, "C02", plans.batch(res.seed * 1000 + 11, sizes(res.tier, 6, 40), 40, fam=plans.stale3),
                     {"C02"}, wd, "c02stale", panic_is_violation=False,
                     nontrivial=lambda st, pl: st["loads"] >= 2 and st["discInputs"] >= 1)
    res.rule = ("request-list walker (Monitor.tla ReqStep/TickP2P/TickSpec) over every advance_frame call of: "
                "exhaustive model runs, TLC schedules replayed on the real sessions, random runs with sparse saving, "
                "tiny windows (stalls at the prediction limit), high latency/loss and spectators, three-peer runs in which a "
                "gossiped earlier cut-off rolls a survivor back to its confirmed frame; non-trivial = "
                ">=1 load and (>=1 stall or rollback depth >=2)")
    res.assumptions += ["SyncTest request lists are judged by C13's check"]


QUEUE_INV = ["NoQueueError", "Truthful", "FirstIncorrectExact", "NothingNeededDiscarded"]


def _queue_component(res, wd, pid):
    """InputQueue.tla alone: exhaustive with a tiny ring (wrap-around), and - with the real ring size - one
    behaviour per distinct model state replayed on the real queue (verif::InputQueueProbe)."""
    import re
    core.build()
    small = [("ring5_w2", {"QL": 5, "W": 2, "MaxFrame": 6, "Values": "{0, 1}", "PredDefault": "FALSE"}),
             ("ring4_w2_preddef", {"QL": 4, "W": 2, "MaxFrame": 5, "Values": "{0, 1}", "PredDefault": "TRUE"})]
    if res.tier == "thorough":
        small += [("ring5_w2_f7", {"QL": 5, "W": 2, "MaxFrame": 7, "Values": "{0, 1}", "PredDefault": "FALSE"}),
                  ("ring6_w3", {"QL": 6, "W": 3, "MaxFrame": 8, "Values": "{0, 1}", "PredDefault": "FALSE"}),
                  ("ring5_w2_v3", {"QL": 5, "W": 2, "MaxFrame": 6, "Values": "{0, 1, 2}", "PredDefault": "FALSE"})]
    for name, c in small:
        cfgp = os.path.join(wd, "mc_q_%s.cfg" % name)
        engines.write_cfg(cfgp, "Spec", {k: str(v) for k, v in c.items()}, invariants=QUEUE_INV, view="View")
        rc, out = core.tlc(os.path.join(core.SPEC, "MC_Queue.tla"), cfgp, os.path.join(wd, "md_q_" + name), workers=6,
                           timeout=1200, xmx="8g")
        gen, dist = core.parse_tlc_stats(out)
        if "is violated" in out or "Model checking completed" not in out:
            raise core.ToolError("MC_Queue/%s: the queue model violates its invariants or did not complete:\n%s"
                                 % (name, out[-1500:]))
        res.add_model("MC_Queue/" + name, gen, dist, {"constants": c, "exhaustive": True})
    for pred, flag in (("repeat", "FALSE"), ("default", "TRUE")):
        c = {"QL": 128, "W": 2, "MaxFrame": sizes(res.tier, 4, 6), "Values": "{0, 1}", "PredDefault": flag}
        cfgp = os.path.join(wd, "mc_q128_%s.cfg" % pred)
        engines.write_cfg(cfgp, "Spec", {k: str(v) for k, v in c.items()}, invariants=QUEUE_INV + ["Emit"], view="View")
        rc, out = core.tlc(os.path.join(core.SPEC, "MC_Queue.tla"), cfgp, os.path.join(wd, "md_q128_" + pred),
                           workers=1, timeout=2400, xmx="8g")
        gen, dist = core.parse_tlc_stats(out)
        if "is violated" in out or "Model checking completed" not in out:
            raise core.ToolError("MC_Queue/128/%s failed:\n%s" % (pred, out[-1500:]))
        beh = os.path.join(wd, "queue_behaviours_%s.ndjson" % pred)
        with open(beh, "w") as f:
            for m in re.finditer(r'<<"QUEUE", "(.*)">>', out):
                f.write(m.group(1).encode().decode("unicode_escape") + "\n")
        res.add_model("MC_Queue/ring128_" + pred, gen, dist, {"constants": c, "exhaustive": True})
        outp = os.path.join(wd, "queue_mismatch_%s.ndjson" % pred)
        rc, o = core.sh([os.path.join(core.BIN, "queue"), beh, outp, pred], timeout=1200)
        if rc != 0:
            raise core.ToolError("queue replay failed: %s" % o[-800:])
        summ = json.loads([l for l in o.splitlines() if l.startswith("{")][-1])
        res.evaluations += summ["behaviours"]
        res.nontrivial += summ["behaviours"]
        res.extra["queue_replay_" + pred] = summ
        if summ["mismatches"]:
            rp = os.path.join(core.REPLAYS, pid)
            os.makedirs(rp, exist_ok=True)
            rpath = os.path.join(rp, "queue_%s_s%d.ndjson" % (pred, res.seed))
            import shutil
            shutil.copy(outp, rpath)
            with open(outp) as f:
                first = json.loads(f.readline())
            res.violations.append({"prop": pid, "code": "input-queue-differs-from-specification", "detail": first["why"],
                                   "family": "queue-replay", "cls": "queue", "replay": rpath})
        os.remove(beh)


def c03(res, wd):
    _queue_component(res, wd, "C03")
    model_session(res, wd, "C03", sizes(res.tier, SESSION_MODELS_QUICK, SESSION_MODELS_THOROUGH), {"C03"})
    ns, depth = sizes(res.tier, (10, 90), (60, 140))
    engines.s2i_runs(res, "C03", wd, "g2p", {"MaxFrame": 8, "PredDefault": "TRUE", "MaxSteps": depth - 10},
                     ns, depth, {"C03"})
    n, frames = sizes(res.tier, (8, 400), (60, 2000))
    rng3 = random.Random(res.seed * 1000 + 31)
    ps = plans.batch(res.seed * 1000 + 6, n, frames, cfg={"predictor": "default"}, change=0.7)
    ps += plans.batch(res.seed * 1000 + 7, n, frames, cfg={"predictor": "repeat"}, change=0.3, alphabet=16)
    # drops: the Disconnected status must be truthful too (default input, after the cut-off only)
    ps += [_drop_plan(rng3, rng3.choice([60, 120])) for _ in range(sizes(res.tier, 8, 40))]
    engines.obs_runs(res, "C03", ps, {"C03"}, wd, "c03",
                     nontrivial=lambda st, pl: st["predicted"] >= 10 and st["corrected"] >= 1)
    res.rule = ("MC_Queue.tla: the input queue alone, exhaustive with a 4-6 slot ring (wrap-around) under a protocol-"
                "respecting client, invariants Truthful / FirstIncorrectExact / NothingNeededDiscarded; with the real ring "
                "size one behaviour per distinct model state is replayed on the real queue (every return value compared). "
                "Session level: status truthfulness and finality of confirmed inputs (Monitor.tla AdvH/FinalF) on every "
                "AdvanceFrame request; both predictors; non-trivial = >=10 predicted inputs and >=1 corrected frame")


def _starve(rng, frames, **over):
    """One peer receives nothing from one other peer for long periods (timeouts disabled)."""
    p = plans.general(rng, frames, **over)
    p["cfg"]["timeout"] = 600000
    p["cfg"]["notify"] = 590000
    n = len(p["cfg"]["peers"])
    outs = []
    t = 300
    while t < frames * 20:
        a = rng.randrange(n)
        b = rng.choice([x for x in range(n) if x != a])
        ln = rng.choice([200, 600, 1500, 4000])
        outs.append({"from": a, "to": b, "start": t, "len": ln})
        t += ln + rng.choice([100, 500, 1000])
    p["outages"] = outs
    p["max_ms"] = 400000
    return p


def c04(res, wd):
    # s2_w0_wait: lockstep sessions may call advance_frame_with_wait_timeout(2 ms); one in-flight packet may
    # arrive at either yield of the waiting call (the clock bound allows one such call per behaviour, anywhere)
    variants = [("s2_w1", {"Window": 1, "MaxFrame": 3}), ("s2_w0", {"Window": 0, "MaxFrame": 3}),
                ("s2_w0_wait", {"Window": 0, "MaxFrame": 3, "WaitMs": 2, "MaxClock": 1000002})]
    if res.tier == "thorough":
        variants += [("s2_w2", {"Window": 2, "MaxFrame": 4}), ("s2_w0_delay", {"Window": 0, "MaxFrame": 3, "Peers": "GenPeers2d"}),
                     ("s2_w0_wait2", {"Window": 0, "MaxFrame": 3, "WaitMs": 2, "MaxClock": 1000004})]
    model_session(res, wd, "C04", variants, {"C04"})
    ns, depth = sizes(res.tier, (8, 90), (60, 140))
    engines.s2i_runs(res, "C04", wd, "g2w0", {"MaxFrame": 8, "Window": 0, "MaxSteps": depth - 10}, ns, depth, {"C04"})
    engines.s2i_runs(res, "C04", wd, "g2w1", {"MaxFrame": 8, "Window": 1, "MaxSteps": depth - 10}, ns, depth, {"C04"})
    engines.s2i_runs(res, "C04", wd, "g2w0wait", {"MaxFrame": 8, "Window": 0, "WaitMs": 3, "MaxClock": 1000060,
                                                  "MaxSteps": depth - 10}, ns, depth, {"C04", "C02", "C01", "C03"})
    # the waiting API on random lockstep runs (packets arrive while the call spins), with conformance
    wps = plans.batch(res.seed * 1000 + 41, sizes(res.tier, 10, 60), 200, fam=plans.lockwait)
    engines.obs_runs(res, "C04", wps, {"C04", "C02", "C01", "C03"}, wd, "c04w",
                     nontrivial=lambda st, pl: st.get("waitLoops", 0) >= 5 and st.get("waitAdvanced", 0) >= 1)
    engines.conform_sample(res, "C04", wps, wd, "c04w", sizes(res.tier, 3, 10))
    n, frames = sizes(res.tier, (6, 300), (40, 1500))
    rng = random.Random(res.seed * 1000 + 8)
    ps = []
    for w in ([0, 0, 1, 2, 8, 12] * 20)[:n]:
        ps.append(_starve(rng, frames, window=w))
    ps += [plans.general(rng, frames, window=0) for _ in range(max(2, n // 2))]
    engines.obs_runs(res, "C04", ps, {"C04"}, wd, "c04",
                     nontrivial=lambda st, pl: st["stalls"] >= 5)
    res.rule = ("[advance_frame_with_wait_timeout is modelled (P2P_AdvanceFrameWait): exhaustive lockstep model with "
                "a waiting call and an arrival at either yield, TLC schedules with waiting calls replayed, random "
                "lockstep runs through the waiting API with conformance] "
                "speculation bound on every first simulation / load, lockstep contract for window 0 "
                "(Monitor.tla AdvViol/ReqStep/TickP2P): exhaustive model runs for windows 0,1,2; TLC schedules "
                "replayed on real sessions; random starvation runs (one link dead for 0.2-4 s at a time, timeouts "
                "disabled) for windows 0..12; non-trivial = >=5 stalled calls")


# ---------------------------------------------------------------------------------------------
# C05: transient faults never wedge a session
# ---------------------------------------------------------------------------------------------

LINK_INV = ["StreamIntact", "NoEndpointError", "HistoryBounded"]


def _link_models(res, wd, tier):
    base = {"MaxFrame": 6, "Cap": 2, "FaultBudget": 3}
    runs = [("w1_spec", dict(base, W=1, SpectatorStyle="TRUE")),
            ("w0_spec", dict(base, W=0, SpectatorStyle="TRUE")),
            ("w0_player", dict(base, W=0, SpectatorStyle="FALSE", MaxFrame=4))]
    if tier == "thorough":
        runs += [("w0_player6", dict(base, W=0, SpectatorStyle="FALSE")),
                 ("w2_spec", dict(base, W=2, SpectatorStyle="TRUE", MaxFrame=7, FaultBudget=4)),
                 ("w1_player", dict(base, W=1, SpectatorStyle="FALSE")),
                 ("w2_player", dict(base, W=2, SpectatorStyle="FALSE"))]
    bad = []
    for name, c in runs:
        held, out = engines.mc_generic(res, wd, "link_" + name, "MC_Link.tla", c, invariants=LINK_INV,
                                       props=["NoWedge"], workers=10)
        if not held:
            bad.append(name)
    # regression / non-vacuity: the pinned behaviour (no ack for an undecodable packet) must wedge
    engines.mc_generic(res, wd, "link_pinned_w1_spec", "MC_Link.tla",
                       dict(base, W=1, SpectatorStyle="TRUE"), invariants=LINK_INV, props=["NoWedge"],
                       overrides={"AckUndecodable": "PinnedBehaviour"}, expect_violation=True, workers=6)
    return bad


def _transient_cfg(rng, kind):
    """2 players (or host + spectator) on default timeouts; every fault is transient."""
    w = rng.choice([0, 1, 1, 2, 8])
    if kind == "spec":
        peers = [{"kind": "p2p", "locals": [0], "delay": rng.choice([0, 2]), "host": 0},
                 {"kind": "spec", "locals": [], "delay": 0, "host": 0}]
        players = 1
    elif kind == "p2spec":
        peers = [{"kind": "p2p", "locals": [0], "delay": rng.choice([0, 1]), "host": 0},
                 {"kind": "p2p", "locals": [1], "delay": rng.choice([0, 2]), "host": 0},
                 {"kind": "spec", "locals": [], "delay": 0, "host": rng.choice([0, 1])}]
        players = 2
    elif kind == "p3":
        peers = [{"kind": "p2p", "locals": [i], "delay": rng.choice([0, 1]), "host": 0} for i in range(3)]
        players = 3
    else:
        peers = [{"kind": "p2p", "locals": [0], "delay": rng.choice([0, 1, 3]), "host": 0},
                 {"kind": "p2p", "locals": [1], "delay": rng.choice([0, 2]), "host": 0}]
        players = 2
    return {"players": players, "window": w, "sparse": rng.random() < 0.3, "predictor": "repeat",
            "desync": 0, "fps": 60, "timeout": 2000, "notify": 500, "max_behind": 10, "catchup": 2,
            "max_delay": 8, "transient": True, "peers": peers}


def _fault_plan_runs(res, wd, tier):
    """Every set of <= K faults on the first M packets of each link/phase (TLC-enumerated)."""
    m, k = sizes(tier, (6, 1), (8, 2))
    rng = random.Random(res.seed * 1000 + 50)
    all_plans = []
    for kind in ("p2", "spec"):
        fps = engines.fault_plans(wd, 2, m, k, [150])
        if tier == "quick" and len(fps) > 80:
            fps = [fps[0]] + rng.sample(fps[1:], 79)
        for fp in fps:
            cfg = _transient_cfg(random.Random(hash((kind, len(all_plans))) & 0xffff), kind)
            all_plans.append({"seed": len(all_plans) + res.seed, "cfg": cfg, "frames": 10 ** 9,
                              "tick_ms": [16, 16], "lat_lo": 8, "lat_hi": 8, "loss": 0.0,
                              "alphabet": 4, "change": 0.5, "links": [[0, 1], [1, 0]],
                              "fault_plan": fp, "fault_until": 2500, "after_ms": 1500, "min_progress": 20,
                              "max_ms": 20000, "_kind": kind})
    res.extra["fault_plans"] = {"M": m, "K": k, "plans": len(all_plans), "exhaustive": tier == "thorough"}
    engines.obs_runs(res, "C05", all_plans, {"C05"}, wd, "fp", batch=8, nontrivial_stat="runsWithPlannedFault",
                     cls_of=lambda p: "faultplan-" + p["_kind"])


def _bursts(rng, kind):
    """Random burst outages (one or both directions, 50-1500 ms) shorter than the timeout."""
    cfg = _transient_cfg(rng, kind)
    n = len(cfg["peers"])
    outs = []
    t = 1200
    while t < 9000:
        a = rng.randrange(n)
        b = rng.choice([x for x in range(n) if x != a])
        ln = rng.choice([50, 150, 400, 400, 800, 1200, 1500])
        outs.append({"from": a, "to": b, "start": t, "len": ln})
        if rng.random() < 0.4:
            outs.append({"from": b, "to": a, "start": t, "len": ln})
        t += ln + rng.choice([700, 1200, 2000])
    return {"seed": rng.randrange(1 << 30), "cfg": cfg, "frames": 10 ** 9, "tick_ms": [16] * n,
            "jitter": rng.choice([0, 2]), "lat_lo": 5, "lat_hi": rng.choice([5, 30]),
            "loss": rng.choice([0.0, 0.05, 0.2]), "dup": rng.choice([0.0, 0.05]),
            "alphabet": 4, "change": 0.4, "outages": outs, "fault_until": 10500, "after_ms": 2000,
            "min_progress": 30, "max_ms": 30000, "_kind": kind}


def c05(res, wd):
    bad = _link_models(res, wd, res.tier)
    # the regression schedule of the repaired wedge: 400 ms ack-path outage towards a spectator
    reg = {"seed": 5, "frames": 10 ** 9,
           "cfg": {"players": 1, "window": 8, "transient": True, "timeout": 2000, "notify": 500,
                   "peers": [{"kind": "p2p", "locals": [0], "delay": 0, "host": 0},
                             {"kind": "spec", "locals": [], "delay": 0, "host": 0}]},
           "tick_ms": [16, 16], "lat_lo": 10, "lat_hi": 10, "loss": 0.0, "alphabet": 4, "change": 0.3,
           "outages": [{"from": 1, "to": 0, "start": 1500, "len": 400}], "fault_until": 2200,
           "after_ms": 3000, "min_progress": 30, "max_ms": 30000, "_kind": "spec"}
    engines.obs_runs(res, "C05", [reg], {"C05"}, wd, "regress", cls_of=lambda p: "spectator-ack-outage")
    if bad:
        # a liveness counterexample of the link model: the class it describes is exercised on the real
        # code by the burst family below; a model-only counterexample is reported as drift
        res.extra["link_model_counterexamples"] = bad
    _fault_plan_runs(res, wd, res.tier)
    n = sizes(res.tier, 12, 80)
    rng = random.Random(res.seed * 1000 + 51)
    ps = [_bursts(rng, ["p2", "spec", "p2spec", "p3"][i % 4]) for i in range(n)]
    engines.obs_runs(res, "C05", ps, {"C05"}, wd, "burst", cls_of=lambda p: "burst-" + p["_kind"],
                     nontrivial=lambda st, pl: st["dropped"] >= 20)
    res.rule = ("(1) MC_Link.tla: exhaustive safety + liveness (NoWedge under weak fairness, fault budget as a guard) of "
                "the input stream / ack path built from Protocol.tla's operators, spectator- and player-style receiver, "
                "windows 0..2; a regression run with the pinned pre-fix behaviour must find the wedge; "
                "(2) every TLC-enumerated set of <=K drop/dup/delay faults on the first M packets of each link and phase "
                "executed on real sessions (player pair, host+spectator), followed by 1.5 s of perfect network: the TLA+ "
                "monitor demands progress of every session and no Disconnected event; (3) random burst outages "
                "50-1500 ms in one or both directions on 2-3 peers with spectators. non-trivial = the planned fault hit "
                "a packet / >=20 packets lost")
    res.assumptions += ["outages stay below timeout - keepalive interval (<= 1500 ms against 2000 ms)",
                        "link model: timers abstracted to a fair Retransmit action; <= 2 packets in flight per direction"]
    if bad and not res.violations:
        raise core.ToolError("MC_Link liveness counterexample (%s) not reproduced on the implementation: "
                             "model deviates from the code" % bad)


# ---------------------------------------------------------------------------------------------
# C06: spectators
# ---------------------------------------------------------------------------------------------

def _spec_plan(rng, frames, **over):
    npeers = rng.choice([1, 2, 2, 3])
    p = plans.general(rng, frames, npeers=npeers, spectators=rng.choice([1, 1, 2]), **over)
    n = len(p["cfg"]["peers"])
    p["cfg"]["inputs_by_frame"] = rng.choice([2, 4, 16])
    p["cfg"]["max_behind"] = rng.choice([1, 2, 5, 10, 30])
    p["cfg"]["catchup"] = rng.choice([1, 2, 3, 8])
    # spectator tick rates 0.3x .. 3x and pauses up to ~80 frames (beyond the 60-slot ring)
    for i in range(n):
        if p["cfg"]["peers"][i]["kind"] == "spec":
            p["tick_ms"][i] = rng.choice([6, 10, 16, 16, 24, 48])
    p["p_pause"] = rng.choice([0.0, 0.01, 0.03])
    p["pause_ms"] = rng.choice([200, 700, 1400])
    p["loss"] = rng.choice([0.0, 0.05, 0.2])
    return p


def _host_disc_plan(rng, frames):
    """A remote player drops (killed or explicitly disconnected) on a host that has a spectator."""
    p = _spec_plan(rng, frames)
    ps = p["cfg"]["peers"]
    p2p = [i for i, x in enumerate(ps) if x["kind"] == "p2p"]
    if len(p2p) < 2:
        ps.insert(1, {"kind": "p2p", "locals": [p["cfg"]["players"]], "delay": 0, "host": 0})
        p["cfg"]["players"] += 1
        p["tick_ms"].insert(1, 16)
        p2p = [0, 1]
    if len(p2p) > 2:
        # two-peer sessions only (a third peer's view of the drop is C10's business)
        ps[:] = [ps[p2p[0]], ps[p2p[1]]] + [x for x in ps if x["kind"] == "spec"]
        p["cfg"]["players"] = sum(len(x["locals"]) for x in ps if x["kind"] == "p2p")
        h = 0
        for x in ps:
            if x["kind"] == "p2p":
                k = len(x["locals"])
                x["locals"] = list(range(h, h + k))
                h += k
        p["tick_ms"] = [16] * len(ps)
    for x in ps:
        if x["kind"] == "spec":
            x["host"] = 0
    at = rng.randrange(20, max(30, frames - 60))
    victim_handle = ps[1]["locals"][0]
    if rng.random() < 0.5:
        p["kills"] = [{"p": 1, "at_frame": at}]
    else:
        p["discs"] = [{"p": 0, "h": victim_handle, "at_frame": at}]
    p["loss"] = rng.choice([0.0, 0.1])
    p["settle_ms"] = 3500
    return p


def _ring_plan(rng, k, locals_):
    """The spectator stops ticking for exactly k host frames on a perfect zero-latency link and then resumes:
    the distance between the newest received frame and the next frame to replay sweeps across the size of the
    spectator's 60-slot ring (at the boundary it must report SpectatorTooFarBehind, not other frames' inputs)."""
    peers = [{"kind": "p2p", "locals": list(range(locals_)), "delay": 0, "host": 0},
             {"kind": "spec", "locals": [], "delay": 0, "host": 0}]
    cfg = {"players": locals_, "window": rng.choice([2, 8]), "sparse": False, "predictor": "repeat", "desync": 0,
           "fps": 60, "timeout": 20000, "notify": 10000, "max_behind": rng.choice([2, 10]),
           "catchup": rng.choice([1, 3]), "max_delay": 8, "peers": peers, "inputs_by_frame": 16}
    return {"seed": rng.randrange(1 << 30), "frames": 20 + k + 120, "cfg": cfg, "tick_ms": [16, 16], "jitter": 0,
            "lat_lo": 0, "lat_hi": 0, "loss": 0.0, "dup": 0.0, "alphabet": 16, "change": 1.0, "p_poll": 0.0,
            "p_pause": 0.0, "pause_ms": 0, "drain": True, "max_ms": 60000, "settle_ms": 300,
            "holds": [{"p": 1, "at_frame": 20, "ticks": k}]}


def c06(res, wd):
    # model: one host (one local player) + one spectator, exhaustive; catch-up settings scaled down
    # (TLC's disk-backed state queue fails on these states - "fcnRcd is null" -, the in-memory queue does not)
    models = [("h1s_f4", {"Peers": "GenPeers1s", "NumPlayers": 1, "Window": 2, "MaxFrame": 4, "MaxBehind": 1,
                          "Catchup": 2, "LinkCap": 2, "InboxCap": 2, "Granular": "TRUE"}),
              # two players on two peers, the spectator watches peer 1: rollbacks on the host side
              ("h2s_f2", {"Peers": "GenPeers2s", "NumPlayers": 2, "Window": 1, "MaxFrame": 2, "MaxBehind": 1,
                          "Catchup": 2})]
    if res.tier == "thorough":
        models[0] = ("h1s_f5", dict(models[0][1], MaxFrame=5))
    for name, over in models:
        held, cex = engines.mc_system(res, wd, name, over, timeout=1500, memqueue=True)
        if not held:
            engines.confirm_on_impl(res, "C06", wd, name, cex, {"C06"})
    ns, depth = sizes(res.tier, (6, 100), (40, 160))
    engines.s2i_runs(res, "C06", wd, "g1s", {"Peers": "GenPeers1s", "NumPlayers": 1, "MaxFrame": 8, "MaxBehind": 1,
                                             "Catchup": 3, "MaxSteps": depth - 10}, ns, depth, {"C06"})
    engines.s2i_runs(res, "C06", wd, "g2s", {"Peers": "GenPeers2s", "NumPlayers": 2, "MaxFrame": 7, "MaxBehind": 2,
                                             "Catchup": 2, "MaxSteps": depth - 10, "Mortal": "{0}"}, ns, depth, {"C06"})
    n, frames = sizes(res.tier, (14, 300), (100, 1200))
    rng = random.Random(res.seed * 1000 + 60)
    ps = [_spec_plan(rng, frames) for _ in range(n)]
    ps += [_host_disc_plan(rng, frames) for _ in range(max(4, n // 2))]
    for pl in ps[::4]:
        pl["cfg"]["wide"] = True         # four-byte inputs (the host joins all players' inputs for its spectators)
    outs = engines.obs_runs(res, "C06", ps, {"C06"}, wd, "c06",
                            nontrivial=lambda st, pl: st["specAdv"] >= 50)
    # ring boundary sweep: pauses of 54..66 host frames (thorough: 48..72, one and two local players)
    lo, hi = sizes(res.tier, (54, 66), (48, 72))
    ring = [_ring_plan(rng, k, 1 + (k % 2 if res.tier == "quick" else j)) for k in range(lo, hi + 1)
            for j in (range(1) if res.tier == "quick" else range(2))]
    engines.obs_runs(res, "C06", ring, {"C06"}, wd, "c06ring", nontrivial=lambda st, pl: st["specAdv"] >= 20)
    # non-interference: the same players without the spectators simulate the same confirmed timeline
    twins = 0
    pairs = []
    for i, pl in enumerate(ps[:sizes(res.tier, 6, 30)]):
        if pl.get("kills") or pl.get("discs"):
            continue
        q = json.loads(json.dumps(pl))
        keep = [j for j, x in enumerate(q["cfg"]["peers"]) if x["kind"] == "p2p"]
        q["cfg"]["peers"] = [q["cfg"]["peers"][j] for j in keep]
        q["tick_ms"] = [q["tick_ms"][j] for j in keep]
        q["seed"] += 17
        pairs.append((i, pl, q))

    def twin(job):
        i, pl, q = job
        a = os.path.join(wd, "twa_%03d.ndjson" % i)
        b = os.path.join(wd, "twb_%03d.ndjson" % i)
        core.drive([pl], a)
        core.drive([q], b)
        return i, a, b, engines.twin_compare(a, b, os.path.join(wd, "mdtw_%03d" % i))

    for i, a, b, r in core.parallel(twin, pairs, n=6):
        twins += 1
        res.traces += 2
        bad = {p: f for p, f in r["diff"].items() if f != -1}
        if bad:
            replay = core.save_replay("C06", a, 1, "twin_%03d_s%d" % (i, res.seed))
            res.violations.append({"prop": "C06", "code": "players-simulate-differently-with-spectators",
                                   "line": 0, "detail": bad, "family": "twin", "cls": "twin", "replay": replay})
        else:
            for pth in (a, b, a + ".plans.json", b + ".plans.json"):
                try:
                    os.remove(pth)
                except OSError:
                    pass
    res.extra["twin_runs"] = twins
    res.rule = ("spectator monitor (Monitor.tla TickSpec/SpecH): every AdvanceFrame handed to a spectator equals the "
                "owner-side truth of that frame (Disconnected exactly beyond the host's cut-off), gapless, never beyond "
                "the host's confirmed frame, per-call count <= catch-up rule, SpectatorTooFarBehind iff the 60-slot ring "
                "was overrun; spectators at 0.3x..3x tick rate with pauses beyond the ring, 1-3 host-side peers, "
                "host-side kills/explicit disconnects; plus twin runs (with / without spectators, frame-indexed inputs) "
                "compared by Trace_Twin.tla.  non-trivial = >=50 frames replayed by spectators")
    res.assumptions += ["exhaustive exploration covers one host + one spectator only (two players + spectator exceed "
                        "400 s); larger topologies are TLC-simulated schedules and random runs"]


# ---------------------------------------------------------------------------------------------
# C07: peer drop detection and the survivor's timeline
# ---------------------------------------------------------------------------------------------

def _drop_plan(rng, frames):
    """Two-peer session, one or two players per side, one side dies (or is disconnected explicitly)."""
    la = rng.choice([1, 1, 2])
    lb = rng.choice([1, 1, 2])
    peers = [{"kind": "p2p", "locals": list(range(la)), "delay": rng.choice([0, 0, 1, 3]), "host": 0},
             {"kind": "p2p", "locals": list(range(la, la + lb)), "delay": rng.choice([0, 0, 2, 4]), "host": 0}]
    nspec = rng.choice([0, 0, 1])
    for _ in range(nspec):
        peers.append({"kind": "spec", "locals": [], "delay": 0, "host": 0})
    w = rng.choice([0, 1, 2, 4, 8, 8])
    timeout = rng.choice([600, 1000, 2000])
    notify = rng.choice([200, 300, 500])
    cfg = {"players": la + lb, "window": w, "sparse": rng.random() < 0.5,
           "predictor": rng.choice(["repeat", "default"]), "desync": 0, "fps": 60,
           "timeout": timeout, "notify": min(notify, timeout - 100), "max_behind": 10, "catchup": 2,
           "max_delay": 8, "peers": peers, "inputs_by_frame": rng.choice([0, 4])}
    n = len(peers)
    at = rng.randrange(5, frames - 10)
    if rng.random() < 0.2:
        at = rng.choice([0, 0, 1, 2])       # the victim goes before (almost) any of its input has arrived
    p = {"seed": rng.randrange(1 << 30), "frames": frames + 200, "cfg": cfg,
         "tick_ms": [16] * n, "jitter": rng.choice([0, 3]),
         "lat_lo": rng.choice([2, 10, 40]), "lat_hi": rng.choice([40, 60, 120]),
         "loss": rng.choice([0.0, 0.0, 0.1, 0.3]), "dup": 0.0, "alphabet": 4,
         "change": rng.choice([0.3, 1.0]), "drain": True,
         "max_ms": 60000, "settle_ms": timeout + 1500, "after_drop_progress": 30}
    if rng.random() < 0.5:
        p["kills"] = [{"p": 1, "at_frame": at}]
    else:
        # explicit disconnect_player while inputs of the dropped player (delayed ones in particular) are
        # ahead of the survivor's frame: the cut-off frame itself is simulated after the flag is set
        p["discs"] = [{"p": 0, "h": rng.choice(peers[1]["locals"]), "at_frame": at}]
        if rng.random() < 0.5:
            # ... and once more later: the documented answer is InvalidRequest (already disconnected)
            p["discs"].append(dict(p["discs"][0], at_frame=at + rng.choice([1, 8, 30])))
        if rng.random() < 0.6:
            peers[1]["delay"] = rng.choice([1, 2, 4])
    return p


def _spec_kick_plan(rng, frames):
    """The host disconnects one of its spectators explicitly (disconnect_player with a spectator handle), and
    tries again later (InvalidRequest is not documented for that - the second call is simply logged)."""
    nplayers_peers = rng.choice([1, 2])
    peers = [{"kind": "p2p", "locals": [0], "delay": rng.choice([0, 1]), "host": 0}]
    if nplayers_peers == 2:
        peers.append({"kind": "p2p", "locals": [1], "delay": rng.choice([0, 2]), "host": 0})
    nspec = rng.choice([1, 2])
    for _ in range(nspec):
        peers.append({"kind": "spec", "locals": [], "delay": 0, "host": 0})
    timeout = rng.choice([600, 1000])
    cfg = {"players": nplayers_peers, "window": rng.choice([0, 2, 8]), "sparse": rng.random() < 0.3,
           "predictor": "repeat", "desync": 0, "fps": 60, "timeout": timeout, "notify": 300, "max_behind": 10,
           "catchup": 2, "max_delay": 8, "peers": peers, "inputs_by_frame": 4}
    at = rng.randrange(10, frames - 20)
    n = len(peers)
    return {"seed": rng.randrange(1 << 30), "frames": frames + 150, "cfg": cfg, "tick_ms": [16] * n,
            "jitter": rng.choice([0, 3]), "lat_lo": 2, "lat_hi": rng.choice([5, 40]), "loss": rng.choice([0.0, 0.1]),
            "dup": 0.0, "alphabet": 4, "change": 0.5, "drain": True, "max_ms": 60000, "settle_ms": timeout + 1500,
            "discs": [{"p": 0, "h": nplayers_peers, "at_frame": at}], "after_drop_progress": 30}


def c07(res, wd):
    variants = [("k2_w1_f2", {"Window": 1, "MaxFrame": 2, "Mortal": "{1}"})]
    if res.tier == "thorough":
        variants += [("k2_w2_f3", {"Window": 2, "MaxFrame": 3, "Mortal": "{1}"}),
                     ("k2_w0_f3", {"Window": 0, "MaxFrame": 3, "Mortal": "{1}"}),
                     ("k21_w1_f2", {"Window": 1, "MaxFrame": 2, "Mortal": "{0}", "Peers": "GenPeers21", "NumPlayers": 3})]
    # time-out detection in the composed model (clock steps of 250 ms, notify 300, timeout 600, packets dropped)
    variants.append(("clk250_f1", {"Granular": "TRUE", "ClockSteps": "Clk250", "MaxClock": 1000750, "Timeout": 600,
                                   "Notify": 300, "Window": 1, "MaxFrame": 1, "Values": "GenValues1"}))
    model_session(res, wd, "C07", variants, {"C07"})
    ns, depth = sizes(res.tier, (8, 100), (60, 150))
    engines.s2i_runs(res, "C07", wd, "g2k", {"MaxFrame": 8, "Mortal": "{0, 1}", "MaxSteps": depth - 10},
                     ns, depth, {"C07"})
    n = sizes(res.tier, 24, 160)
    rng = random.Random(res.seed * 1000 + 70)
    ps = [_drop_plan(rng, rng.choice([60, 120, 250])) for _ in range(n)]
    engines.obs_runs(res, "C07", ps, {"C07"}, wd, "c07",
                     nontrivial=lambda st, pl: st["discInputs"] >= 5)
    engines.conform_sample(res, "C07", ps, wd, "c07", sizes(res.tier, 3, 12))
    # three peers: the drop of one player is handled in the very call that also repairs a misprediction of the
    # other remote player (two reasons to roll back, the earlier one must win); alignment swept systematically
    ms = [plans.mis3(rng, 40, i=i) for i in range(sizes(res.tier, 9, 36))]
    engines.obs_runs(res, "C07", ms, {"C07"}, wd, "c07m", nontrivial=lambda st, pl: st["discInputs"] >= 5)
    # disconnect_player with a spectator handle: the host and its other spectators carry on, the kicked
    # spectator runs into its own time-out
    ks = [_spec_kick_plan(rng, rng.choice([60, 120])) for _ in range(sizes(res.tier, 6, 30))]
    engines.obs_runs(res, "C07", ks, {"C07", "C06", "C12"}, wd, "c07k",
                     nontrivial=lambda st, pl: st["specAdv"] >= 20 and st["advances"] >= 50)
    engines.conform_sample(res, "C07", ks, wd, "c07k", sizes(res.tier, 2, 6))
    res.rule = ("two-peer sessions (1-2 players per side, windows 0..8, delays, sparse on/off, both predictors, "
                "with/without spectator, loss up to 30%) in which one side is killed at a random frame with packets in "
                "flight or disconnected explicitly; Monitor.tla judges event timing against the virtual clock "
                "(NetworkInterrupted only after notify of silence, Disconnected only after timeout, both reported at "
                "the first poll after they were due, once) and the survivor's final timeline (real inputs up to the "
                "cut-off, default+Disconnected after it, also for frames first simulated with predictions); three-peer "
                "runs in which the explicit disconnect of a dead player coincides with the repair of a misprediction of "
                "the other remote player; non-trivial = >=5 frames simulated with a Disconnected input")


# ---------------------------------------------------------------------------------------------
# C09: desync detection
# ---------------------------------------------------------------------------------------------

def c09(res, wd):
    model_session(res, wd, "C09", [("s2_w2_desync1", {"Window": 2, "MaxFrame": 3, "DesyncInterval": 1})] +
                  ([("s2_w1_desync2", {"Window": 1, "MaxFrame": 4, "DesyncInterval": 2}),
                    ("s2_w2_desync1_sparse", {"Window": 2, "MaxFrame": 3, "DesyncInterval": 1, "Sparse": "TRUE"})]
                   if res.tier == "thorough" else []), {"C09"})
    ns, depth = sizes(res.tier, (8, 100), (60, 160))
    engines.s2i_runs(res, "C09", wd, "g2d", {"MaxFrame": 10, "DesyncInterval": 1, "MaxSteps": depth - 10},
                     ns, depth, {"C09"})
    # false-alarm half: deterministic game, every interval 1..12
    n, frames = sizes(res.tier, (12, 300), (96, 1200))
    rng = random.Random(res.seed * 1000 + 90)
    ps = []
    for i in range(n):
        fam = plans.tight if i % 3 == 0 else plans.general
        ps.append(fam(rng, frames, cfg={"desync": 1 + (i % 12)}))
    engines.obs_runs(res, "C09", ps, {"C09"}, wd, "c09fa",
                     nontrivial=lambda st, pl: st["loads"] >= 5)
    # detection half: one peer's game diverges from frame f0 on (saving not sparse, no loss)
    det = []
    nd = sizes(res.tier, 10, 60)
    for i in range(nd):
        interval = rng.choice([1, 2, 3, 4, 7, 12])
        f0 = rng.randrange(1, 40 if res.tier == "quick" else 200)
        p = plans.general(rng, f0 + 8 * interval + 60, npeers=2, max_locals=1,
                          cfg={"desync": interval, "sparse": False}, loss=0.0, dup=0.0)
        p["cfg"]["peers"][rng.randrange(2)]["corrupt_from"] = f0
        p["p_pause"] = 0.0
        p["settle_ms"] = 500
        if i % 2 == 0:
            # packets towards one peer are held for a while and arrive in a burst before the divergence: the
            # confirmed frame jumps by several report intervals in one call
            f0b = f0 + 40
            p["cfg"]["peers"][0].pop("corrupt_from", None)
            p["cfg"]["peers"][1].pop("corrupt_from", None)
            p["cfg"]["peers"][rng.randrange(2)]["corrupt_from"] = f0b
            p["frames"] = f0b + 8 * interval + 60
            v = rng.randrange(2)
            p["outages"] = [{"from": 1 - v, "to": v, "start": 400, "len": rng.choice([80, 120, 200])}]
            p["cfg"]["window"] = max(p["cfg"]["window"], 8)
            p["cfg"]["desync"] = rng.choice([1, 1, 2])      # the jump must span several report intervals
            p["frames"] = f0b + 8 * p["cfg"]["desync"] + 60
            p["tick_ms"] = [16, 16]
            p["jitter"] = 0
            p["lat_lo"], p["lat_hi"] = 5, 10
        det.append(p)
    engines.obs_runs(res, "C09", det, {"C09"}, wd, "c09det", nontrivial=lambda st, pl: st["events"] >= 1)
    res.rule = ("false-alarm half: no DesyncDetected event in any exhaustive model run (interval 1..2), replayed TLC "
                "schedule or random run (intervals 1..12, sparse on/off, loss/reorder, stall-heavy 'tight' timing) of a "
                "deterministic game; detection half: a game that diverges from a random frame f0 on (non-sparse, no "
                "loss) makes every peer report DesyncDetected for a frame > f0 no later than 3 intervals after the first "
                "report frame, with the two checksums the games really saved (Monitor.tla EvFold/DetectV)")


# ---------------------------------------------------------------------------------------------
# C11: run-time input-delay changes
# ---------------------------------------------------------------------------------------------

EAGER = {"EagerNet": "TRUE", "LinkCap": 8, "InboxCap": 8, "Window": 2}


def c11(res, wd):
    variants = [("d012_f2", dict(EAGER, MaxFrame=2, DelayValues="{0, 1, 2}")),
                ("d01_2locals", dict(EAGER, MaxFrame=2, DelayValues="{0, 1}", Peers="GenPeers21", NumPlayers=3))]
    if res.tier == "thorough":
        variants += [("d01_f3", dict(EAGER, MaxFrame=3, DelayValues="{0, 1}")),
                     ("d02_f3_w1", dict(EAGER, MaxFrame=3, DelayValues="{0, 2}", Window=1)),
                     ("d02_lockstep", dict(EAGER, MaxFrame=3, DelayValues="{0, 2}", Window=0))]
    model_session(res, wd, "C11", variants, {"C11", "C01", "C03"})
    # regression / non-vacuity: the two pinned behaviours must violate the monitor in the model
    engines.mc_system(res, wd, "pinned_fill", dict(EAGER, MaxFrame=3, DelayValues="{0, 1, 2}"),
                      overrides={"FillFromQueue": "PinnedFalse"}, expect_violation=True)
    engines.mc_system(res, wd, "pinned_blanks", dict(EAGER, MaxFrame=2, DelayValues="{0, 1, 2}", Peers="GenPeers21",
                                                     NumPlayers=3),
                      overrides={"SendLeadingBlanks": "PinnedFalse"}, expect_violation=True)
    ns, depth = sizes(res.tier, (12, 100), (80, 160))
    engines.s2i_runs(res, "C11", wd, "g2dly", {"MaxFrame": 8, "DelayValues": "{0, 1, 2, 3}", "MaxSteps": depth - 10},
                     ns, depth, {"C11", "C01", "C03"})
    engines.s2i_runs(res, "C11", wd, "g21dly", {"Peers": "GenPeers21", "NumPlayers": 3, "MaxFrame": 8,
                                                "DelayValues": "{0, 2}", "MaxSteps": depth - 10},
                     ns // 2, depth, {"C11", "C01", "C03"})
    n, frames = sizes(res.tier, (14, 300), (100, 1500))
    ps = plans.batch(res.seed * 1000 + 110, n, frames, fam=plans.delays)
    ps += plans.batch(res.seed * 1000 + 111, max(3, n // 3), frames, fam=plans.delays, spectators=1, npeers=2)
    ps += plans.batch(res.seed * 1000 + 112, max(3, n // 3), frames, fam=plans.delays, window=2, lat_lo=40, lat_hi=80)
    engines.obs_runs(res, "C11", ps, {"C11", "C01", "C03", "C06"}, wd, "c11",
                     nontrivial=lambda st, pl: st["verified"] >= 20)
    res.rule = ("delay sequences 0..6 applied to any local player at any tick (also before the first frame, while "
                "stalled, decrease-then-increase, two local players with different delays, spectators attached): "
                "exhaustive in System.tla (reliable FIFO network, delays {0,1,2}, up to 3 frames, 1-2 local players) "
                "with the monitor as invariant, TLC schedules replayed on the real sessions (Trace_Sys conformance), "
                "random runs; the monitor compares every peer's final simulation with the owner-side truth defined by "
                "the documented delay semantics (Props.tla Submit/SetDelay), and demands that no queued outgoing input "
                "is at or below the last frame sent.  Two regression model runs with the pinned (pre-fix) behaviour "
                "must violate the monitor.  non-trivial = >=20 frames verified final")


# ---------------------------------------------------------------------------------------------
# C10: survivors agree on the cut-off of a dropped player (3+ peers)
# ---------------------------------------------------------------------------------------------

def c10(res, wd):
    ns, depth = sizes(res.tier, (16, 110), (120, 160))
    props = {"C10", "C07", "C01"}
    # TLC-simulated behaviours of System.tla with three peers, one of which dies at any moment (its
    # packets in flight reach the survivors unevenly: every link delivers/drops independently),
    # replayed on three real sessions; Trace_Sys binds, the monitor judges
    for w in (1, 2):
        engines.s2i_runs(res, "C10", wd, "g3k_w%d" % w,
                         {"Peers": "GenPeers3", "NumPlayers": 3, "Window": w, "MaxFrame": 7, "Mortal": "{0, 1, 2}",
                          "MaxSteps": depth - 10, "LinkCap": 2, "InboxCap": 2},
                         ns // 2, depth, props)
    n, frames = sizes(res.tier, (20, 120), (150, 400))
    ps = plans.batch(res.seed * 1000 + 100, n, frames, fam=plans.drop3)
    # equal views by construction; the drop reaches one survivor by gossip together with mispredicted inputs
    ps += plans.batch(res.seed * 1000 + 101, sizes(res.tier, 10, 60), 100, fam=plans.gossip3)
    engines.obs_runs(res, "C10", ps, props, wd, "c10",
                     nontrivial=lambda st, pl: st["discInputs"] >= 5)
    # history class per run: once the monitor has established that the survivors of a run hold different amounts of
    # the dropped player's input (panic class or differing cut-offs), every violation of that run belongs to the
    # known class
    unequal = {v["replay"] for v in res.violations
               if v.get("cls") == "unequal-views-of-dropped-player" or v.get("code") == "survivors-disagree-on-cutoff"}
    for v in res.violations:
        if v["replay"] in unequal:
            v["cls"] = "unequal-views-of-dropped-player"
    res.rule = ("three or four rollback-mode peers, one dies at a random frame while per-link latency/loss give the "
                "survivors different or equal amounts of its input: (1) TLC-simulated behaviours of System.tla "
                "(Mortal peers, disconnect_player by the survivors, per-link delivery) replayed on real sessions with "
                "Trace_Sys conformance; (2) random runs with time-out based detection.  Monitor.tla demands: no panic, "
                "every survivor's final timeline coherent (C07 predicates) and, at the end, the same cut-off for the "
                "dropped player on every survivor (CutoffV).  The history class 'survivors hold different amounts of "
                "the dropped player's input' is computed by the monitor (PanicLine) and matched against "
                "known_findings.json; any violation outside that class is reported.  non-trivial = >=5 frames "
                "simulated with a Disconnected input")
    res.assumptions += ["exhaustive exploration of three peers is out of reach (>700 s at 2 frames); the model part of "
                        "this check is TLC simulation, not exhaustion"]


# ---------------------------------------------------------------------------------------------
# C12: connection life-cycle events
# ---------------------------------------------------------------------------------------------

HS_INV = ["RunningIffFullHandshake", "EventsWellFormed", "NoErr"]


def _silence_plan(rng, kind):
    """Two peers (or host+spectator); one silence period of a length around the notify delay or
    the disconnect timeout, in one or both directions, then a perfect network again."""
    timeout = rng.choice([700, 1000, 2000])
    notify = rng.choice([200, 300, 500])
    notify = min(notify, timeout - 200)
    if kind == "spec":
        peers = [{"kind": "p2p", "locals": [0], "delay": 0, "host": 0},
                 {"kind": "spec", "locals": [], "delay": 0, "host": 0}]
        players = 1
    else:
        peers = [{"kind": "p2p", "locals": [0], "delay": 0, "host": 0},
                 {"kind": "p2p", "locals": [1], "delay": 1, "host": 0}]
        players = 2
    cfg = {"players": players, "window": rng.choice([0, 2, 8]), "sparse": False, "predictor": "repeat",
           "desync": 0, "fps": 60, "timeout": timeout, "notify": notify, "max_behind": 10, "catchup": 1,
           "max_delay": 8, "peers": peers}
    around = rng.choice([notify, notify, timeout])
    ln = max(20, around + rng.choice([-220, -60, -30, -17, -5, 5, 17, 30, 60, 150]))
    a, b = (1, 0) if rng.random() < 0.5 else (0, 1)
    outs = [{"from": a, "to": b, "start": 1500, "len": ln}]
    if rng.random() < 0.4:
        outs.append({"from": b, "to": a, "start": 1500, "len": ln})
    return {"seed": rng.randrange(1 << 30), "cfg": cfg, "frames": 10 ** 9, "tick_ms": [rng.choice([4, 16, 16, 33])] * 2,
            "jitter": rng.choice([0, 2]), "lat_lo": 3, "lat_hi": rng.choice([3, 20]), "loss": 0.0,
            "alphabet": 4, "change": 0.3, "outages": outs, "fault_until": 1500 + ln + 10,
            "after_ms": timeout + 800, "min_progress": 0, "max_ms": 30000, "p_poll": rng.choice([0.0, 0.5])}


def c12(res, wd):
    hs = [("f1_r1", {"Cap": 2, "FaultBudget": 1, "StrayBudget": 0, "RetryBudget": 1}),
          ("s1_r1", {"Cap": 2, "FaultBudget": 0, "StrayBudget": 1, "RetryBudget": 1})]
    if res.tier == "thorough":
        hs += [("f1_s1_r2", {"Cap": 2, "FaultBudget": 1, "StrayBudget": 1, "RetryBudget": 2})]
    for name, c in hs:
        held, out = engines.mc_generic(res, wd, "hs_" + name, "MC_Handshake.tla", c, invariants=HS_INV,
                                       props=["Completes"], workers=10, timeout=1200)
        if not held:
            raise core.ToolError("MC_Handshake/%s violates its properties: the handshake model deviates from the "
                                 "code or the code is defective; see %s" % (name, wd))
    # the timers in the composed model: the clock advances in steps of 250 ms (notify 300, timeout 600), packets
    # may be dropped and sessions may stay idle, so interruptions, resumptions and time-outs occur in every order
    # the code allows; the monitor's timing and life-cycle predicates are the invariant
    clocked = [("clk250_f1", {"Granular": "TRUE", "ClockSteps": "Clk250", "MaxClock": 1000750, "Timeout": 600,
                              "Notify": 300, "Window": 1, "MaxFrame": 1, "Values": "GenValues1"})]
    if res.tier == "thorough":
        clocked += [("clk350_f1", dict(clocked[0][1], ClockSteps="Clk350", MaxClock=1001050)),
                    ("clk250_w0", dict(clocked[0][1], Window=0))]
    model_session(res, wd, "C12", clocked, {"C12", "C07"})
    rng = random.Random(res.seed * 1000 + 120)
    n, frames = sizes(res.tier, (10, 150), (80, 600))
    # (a) handshake under heavy loss / duplication / reordering, 2-4 peers, spectators
    ps = []
    for i in range(n):
        p = plans.general(rng, frames, spectators=rng.choice([0, 0, 1]))
        p["loss"] = rng.choice([0.2, 0.4, 0.6])
        p["dup"] = rng.choice([0.0, 0.2, 0.4])
        p["lat_hi"] = p["lat_lo"] + rng.choice([30, 120, 300])
        p["fault_until"] = rng.choice([800, 2500])
        p["after_ms"] = 3000 + frames * 20
        p["min_progress"] = 10
        ps.append(p)
    engines.obs_runs(res, "C12", ps, {"C12", "C05"}, wd, "c12hs", nontrivial=lambda st, pl: st["dropped"] >= 10)
    # (a') handshakes over a link with more than a second of one-way latency: up to ten requests are outstanding when
    # the replies to the oldest ones arrive; each of them is a matched round trip
    sh = [plans.slowhs(rng, 20) for _ in range(sizes(res.tier, 3, 12))]
    engines.obs_runs(res, "C12", sh, {"C12"}, wd, "c12slow", nontrivial=lambda st, pl: st["events"] >= 8)
    # (b) silences of every length around the notify delay and the timeout
    nsl = sizes(res.tier, 16, 120)
    sl = [_silence_plan(rng, "spec" if i % 4 == 3 else "p2") for i in range(nsl)]
    engines.obs_runs(res, "C12", sl, {"C12", "C07"}, wd, "c12sil", nontrivial=lambda st, pl: st["events"] >= 10)
    # (c) the user never drains events (interruptions and wait recommendations keep coming)
    nd = sizes(res.tier, 3, 12)
    nv = []
    for i in range(nd):
        p = plans.general(rng, sizes(res.tier, 1500, 6000), npeers=rng.choice([2, 3]), spectators=rng.choice([0, 1]))
        p["drain"] = False
        p["cfg"]["notify"] = 100
        p["cfg"]["timeout"] = 60000
        p["outage_rate"] = 0.6
        p["outage_lo"] = 120
        p["outage_hi"] = 400
        p["tick_ms"] = [16] + [22] * (len(p["tick_ms"]) - 1)
        p["max_ms"] = 200000
        nv.append(p)
    engines.obs_runs(res, "C12", nv, {"C12", "C18"}, wd, "c12nd", nontrivial=lambda st, pl: st["ticks"] >= 1000)
    # (d) two connected sessions that merely poll, at any cadence up to the keep-alive interval
    po = []
    for cad in ([1, 16, 50, 120, 199] if res.tier == "quick" else [1, 5, 16, 33, 50, 100, 150, 180, 199]):
        po.append({"seed": cad, "frames": 10 ** 9, "poll_only": True,
                   "cfg": {"players": 2, "window": 8, "timeout": 2000, "notify": 500, "no_interrupt": True,
                           "peers": [{"kind": "p2p", "locals": [0], "delay": 0, "host": 0},
                                     {"kind": "p2p", "locals": [1], "delay": 0, "host": 0}]},
                   "tick_ms": [cad, cad], "jitter": 0, "lat_lo": 5, "lat_hi": 30, "loss": 0.0,
                   "max_ms": 6000})
    engines.obs_runs(res, "C12", po, {"C12"}, wd, "c12poll", nontrivial=lambda st, pl: st["events"] >= 2)
    res.rule = ("(1) MC_Handshake.tla (two endpoints from Protocol.tla's operators; loss, duplication, reordering, stray "
                "replies with unissued / consumed nonces or a foreign magic): Running iff exactly 5 matched round trips, "
                "event word Synchronizing(1..4) Synchronized, liveness Completes under weak fairness; (2) real sessions: "
                "handshakes under 20-60% loss and over links with 1.1-1.9 s latency, silences of notify/timeout -220..+150 ms, never-drained sessions with "
                "frequent interruptions, poll-only pairs at cadences 1..199 ms.  Monitor.tla: per-address event automaton, "
                "Synchronized only after 5 matched request/reply round trips counted from the packets, Running iff all "
                "remotes synchronized, NotSynchronized before, interruption/disconnect neither early nor late, "
                "event queue <= 100.  non-trivial per family: packets lost / events seen / >=1000 calls")


# ---------------------------------------------------------------------------------------------
# C14 (codec) and C08 (malformed / foreign packets)
# ---------------------------------------------------------------------------------------------

CODEC_BIN = os.path.join(core.BIN, "codec")
ALLOC_BOUND = 4 * 129 * (65535 + 2)      # a small multiple of what a legitimate packet can expand to


def _codec_run(args, timeout=1800):
    """Run the codec harness in a child process (an allocation abort kills only the child)."""
    rc, out = core.sh([CODEC_BIN] + args, timeout=timeout)
    if rc != 0:
        return None, out
    last = [l for l in out.splitlines() if l.startswith("{")]
    return json.loads(last[-1]), out


def _validate_codec_records(path, wd, tag, par=12):
    """TLC validates the records against Codec.tla (chunks in parallel).  Returns (records, skipped, bad list)."""
    with open(path) as f:
        lines = f.readlines()
    if not lines:
        return 0, 0, []
    nchunk = max(1, min(par * 2, len(lines) // 3000 + 1))
    size = (len(lines) + nchunk - 1) // nchunk
    jobs = []
    for i in range(nchunk):
        part = lines[i * size:(i + 1) * size]
        if not part:
            continue
        pth = os.path.join(wd, "%s_chunk%02d.ndjson" % (tag, i))
        with open(pth, "w") as f:
            f.writelines(part)
        jobs.append((i, pth))

    def one(job):
        import re
        i, pth = job
        rc, out = core.tlc(os.path.join(core.SPEC, "Trace_Codec.tla"), os.path.join(core.SPEC, "Trace_Codec.cfg"),
                           os.path.join(wd, "md_%s_%02d" % (tag, i)), env={"TRACE": pth}, timeout=1500, xmx="3g")
        m = re.search(r'<<"CODEC-RESULT", "(.*)">>', out)
        if not m:
            raise core.ToolError("Trace_Codec produced no result for %s (rc=%d): %s" % (pth, rc, out[-1500:]))
        os.remove(pth)
        return json.loads(m.group(1).encode().decode("unicode_escape"))

    outs = core.parallel(one, jobs, n=par)
    return (sum(o["records"] for o in outs), sum(o["skipped"] for o in outs),
            [b for o in outs for b in o["first"]])


def _codec_core(res, wd, pid):
    """The part shared by C14 and C08: exhaustive decoder inputs judged against Codec.tla, random /
    mutational inputs judged for panic and peak allocation."""
    core.build()
    maxlen = 2
    rec = os.path.join(wd, "dec_exh.ndjson")
    summ, out = _codec_run(["exhaust", rec, str(maxlen)])
    if summ is None:
        res.violations.append({"prop": pid, "code": "decoder-aborted-the-process", "detail": out[-300:],
                               "family": "codec-exhaust", "cls": "codec", "replay": rec})
        return
    n, skipped, bad = _validate_codec_records(rec, wd, "exh")
    res.traces += 1
    res.evaluations += n
    res.nontrivial += n - skipped
    res.extra["decoder_exhaustive"] = {"max_len": maxlen, "records": n, "validated_by_tlc": n - skipped,
                                       "exhaustive": True, "max_peak_alloc": summ["max_peak"]}
    for b in bad[:3]:
        rp = os.path.join(core.REPLAYS, pid)
        os.makedirs(rp, exist_ok=True)
        rpath = os.path.join(rp, "codec_%s_s%d.json" % (b["why"], res.seed))
        with open(rpath, "w") as f:
            json.dump(b, f)
        res.violations.append({"prop": pid, "code": b["why"], "detail": b["rec"], "family": "codec-exhaust",
                               "cls": "codec", "replay": rpath})
    if res.tier == "thorough":
        rec3 = os.path.join(wd, "dec_exh3.ndjson")
        summ3, out3 = _codec_run(["exhaust", rec3, "3", "0,1,2,3,4,5,8,127,128,129,130,255"])
        if summ3 is None:
            res.violations.append({"prop": pid, "code": "decoder-aborted-the-process", "detail": out3[-300:],
                                   "family": "codec-exhaust3", "cls": "codec", "replay": rec3})
        else:
            n3, sk3, bad3 = _validate_codec_records(rec3, wd, "exh3")
            res.evaluations += n3
            res.nontrivial += n3 - sk3
            res.extra["decoder_exhaustive_len3_alphabet12"] = {"records": n3, "validated_by_tlc": n3 - sk3}
            for b in bad3[:3]:
                res.violations.append({"prop": pid, "code": b["why"], "detail": b["rec"], "family": "codec-exhaust3",
                                       "cls": "codec", "replay": rec3})
        sw = os.path.join(wd, "sweep3.ndjson")
        s3, o3 = _codec_run(["sweep3", sw])
        if s3 is None or s3["panics_or_mismatches"] > 0 or s3["max_peak"] > ALLOC_BOUND:
            res.violations.append({"prop": pid, "code": "three-byte-sweep-panic-abort-or-allocation",
                                   "detail": (s3 or o3[-300:]), "family": "codec-sweep3", "cls": "codec", "replay": sw})
        else:
            res.evaluations += s3["cases"]
            res.extra["decoder_sweep_all_3_byte_strings"] = s3
    # mutational decoder inputs (bit flips, truncation, varint inflation, insertions, garbage)
    mut = os.path.join(wd, "dec_mut.ndjson")
    nm = sizes(res.tier, 30000, 400000)
    sm, om = _codec_run(["mutate", mut, str(res.seed), str(nm)])
    if sm is None:
        res.violations.append({"prop": pid, "code": "decoder-aborted-the-process", "detail": om[-300:],
                               "family": "codec-mutate", "cls": "codec", "replay": mut})
    else:
        res.evaluations += sm["cases"]
        res.extra["decoder_mutational"] = sm
        if sm["panics_or_mismatches"] > 0:
            res.violations.append({"prop": pid, "code": "decode-panicked", "detail": sm, "family": "codec-mutate",
                                   "cls": "codec", "replay": mut})
        if sm["max_peak"] > ALLOC_BOUND:
            res.violations.append({"prop": pid, "code": "decode-allocates-unboundedly", "detail": sm,
                                   "family": "codec-mutate", "cls": "codec", "replay": mut})
        nmr, skm, badm = _validate_codec_records(mut, wd, "mut")
        res.nontrivial += nmr - skm
        for b in badm[:3]:
            res.violations.append({"prop": pid, "code": b["why"], "detail": b["rec"], "family": "codec-mutate",
                                   "cls": "codec", "replay": mut})


def c14(res, wd):
    consts = {"Bytes": "{0, 1, 128, 255}", "MaxLen": 2, "MaxCount": 2,
              "DecBytes": "{0, 1, 2, 3, 4, 5, 6, 8, 128, 129, 130}", "DecLen": 3}
    if res.tier == "thorough":
        consts.update({"Bytes": "{0, 1, 127, 128, 255}", "MaxCount": 3})
    held, out = engines.mc_generic(res, wd, "codec_theorems", "MC_Codec.tla", consts,
                                   invariants=["RoundTripAll", "EncodeValid", "TotalAll"], workers=2, timeout=3000)
    if not held:
        raise core.ToolError("MC_Codec: the codec specification violates its own theorems:\n" + out[-1500:])
    import re
    m = re.search(r'"cases", (\d+), "decoder-inputs", (\d+)', out)
    if m:
        res.extra["spec_theorem_instances"] = {"round_trip_cases": int(m.group(1)), "decoder_inputs": int(m.group(2))}
        res.states += int(m.group(1)) + int(m.group(2))
        res.transitions += int(m.group(1)) + int(m.group(2))
    _codec_core(res, wd, "C14")
    # round trips through the real encode/decode: small exhaustive (bytes + round trip validated by
    # TLC against SpecEncode / RoundTrip) and random large (lengths up to 65535, long 0x00/0xFF runs)
    rt = os.path.join(wd, "roundtrip.ndjson")
    nr = sizes(res.tier, 300, 4000)
    sr, orr = _codec_run(["roundtrip", rt, str(res.seed), str(nr)])
    if sr is None or sr["panics_or_mismatches"] > 0:
        res.violations.append({"prop": "C14", "code": "round-trip-failed", "detail": sr or orr[-300:],
                               "family": "codec-roundtrip", "cls": "codec", "replay": rt})
    else:
        res.evaluations += sr["cases"]
        n, sk, bad = _validate_codec_records(rt, wd, "rt")
        res.nontrivial += n
        res.extra["round_trip_real_codec"] = {"cases": sr["cases"], "validated_by_tlc": n, "random_large": nr}
        for b in bad[:3]:
            res.violations.append({"prop": "C14", "code": b["why"], "detail": b["rec"], "family": "codec-roundtrip",
                                   "cls": "codec", "replay": rt})
    res.add_sample({"decoder_record": {"ref": [7], "data": [129, 2], "res": "judged against Codec.tla SpecDecode"}})
    res.rule = ("Codec.tla transcribes delta + run-length coding as functions; MC_Codec checks RoundTrip / Total / "
                "EncodeValid exhaustively over small alphabets; the real decode is run on EVERY byte string up to 2 bytes "
                "(thorough: all 3-byte strings for panic/allocation, 3-byte strings over a 12-value alphabet validated) "
                "and each record (reference, data, result) is validated by TLC against SpecDecode; the real encode is "
                "compared byte for byte with SpecEncode on the small exhaustive space; random references/inputs up to "
                "65535 bytes with long 0x00/0xFF runs round-trip through the real code; mutated payloads are judged for "
                "panic and peak heap use (counting allocator) <= 4x the largest legitimate decoded packet. "
                "non-trivial = records validated by TLC")
    res.assumptions += ["lengths above 12 bytes are sampled, not enumerated; the bincode layer is outside the specification",
                        "varints longer than 4 bytes exceed TLC's exact integers: those records are judged for panic "
                        "and allocation only"]


FOREIGN_KINDS = ["foreign:SyncRequest", "foreign:SyncReply", "foreign:InputAck", "foreign:QualityReport",
                 "foreign:QualityReply", "foreign:ChecksumReport", "foreign:KeepAlive", "foreignMagic", "unknownAddr"]
FORGE_KINDS = ["shortStatus", "negStart", "badPayload", "wrongSizeAll", "wrongSizeFirst", "wrongSizeLast",
               "foreignMagic", "unknownAddr"]


def _forge_plan(rng, frames, payloads):
    p = plans.general(rng, frames, npeers=rng.choice([2, 2, 3]), spectators=rng.choice([0, 0, 1]))
    p["cfg"]["forged"] = True
    p["cfg"]["inputs_by_frame"] = 4
    p["forge"] = {"rate": rng.choice([0.05, 0.2, 0.5]), "kinds": FORGE_KINDS, "payloads": payloads}
    p["loss"] = rng.choice([0.0, 0.1])
    if rng.random() < 0.3:
        p["kills"] = [{"p": len([x for x in p["cfg"]["peers"] if x["kind"] == "p2p"]) - 1, "at_frame": frames // 2}]
        p["cfg"]["timeout"] = 600
        p["cfg"]["notify"] = 300
        p["settle_ms"] = 1500
    return p


WIRE_BIN = os.path.join(core.BIN, "wire")


def _wire_layer(res, wd, pid="C08"):
    """The datagram layer: raw datagrams (every 0/1-byte one, header grids, truncations, trailing bytes, marker
    values at every position, random edits, datagrams longer than the receive buffer) are sent over the loopback
    interface to the REAL UdpNonBlockingSocket; what receive_all_messages hands out is judged by TLC against the
    grammar in Wire.tla (Trace_Wire.tla); send_to's bytes are compared with the encoding."""
    import re
    rec = os.path.join(wd, "wire.ndjson")
    rc, out = core.sh([WIRE_BIN, rec, str(res.seed), str(sizes(res.tier, 1500, 20000))], timeout=600)
    if rc == 3:
        raise core.ToolError("wire: loopback datagrams are not delivered in this environment: " + out[-300:])
    last = [l for l in out.splitlines() if l.startswith("{")]
    if rc != 0 or not last:
        rp = os.path.join(core.REPLAYS, pid, "wire_abort_s%d.ndjson" % res.seed)
        os.makedirs(os.path.dirname(rp), exist_ok=True)
        if os.path.exists(rec):
            shutil.copy(rec, rp)
        res.violations.append({"prop": pid, "code": "socket-aborted-the-process", "detail": out[-300:],
                               "family": "wire", "cls": "wire", "replay": rp})
        return
    summ = json.loads(last[-1])
    rc, out = core.tlc(os.path.join(core.SPEC, "Trace_Wire.tla"), os.path.join(core.SPEC, "Trace_Wire.cfg"),
                       os.path.join(wd, "md_wire"), env={"TRACE": rec}, timeout=900, xmx="3g")
    m = re.search(r'<<"WIRE-RESULT", "(.*)">>', out)
    if not m:
        raise core.ToolError("Trace_Wire produced no result (rc=%d): %s" % (rc, out[-1500:]))
    r = json.loads(m.group(1).encode().decode("unicode_escape"))
    if r["records"] != summ["rx"] + summ["tx"]:
        raise core.ToolError("Trace_Wire judged %d records, the harness wrote %d" % (r["records"], summ["rx"] + summ["tx"]))
    res.traces += 1
    res.evaluations += r["records"]
    res.nontrivial += r["accepted"]
    res.extra["wire_layer"] = {"datagrams_received": summ["rx"], "messages_sent": summ["tx"],
                               "well_formed_per_Wire_tla": r["accepted"], "rejected_per_Wire_tla": summ["rx"] - r["accepted"],
                               "validated_by_tlc": r["records"]}
    if r["accepted"] < 50 or summ["rx"] - r["accepted"] < 50:
        raise core.ToolError("wire: vacuous sweep (accepted %d of %d)" % (r["accepted"], summ["rx"]))
    for b in r["first"][:3]:
        rp = os.path.join(core.REPLAYS, pid)
        os.makedirs(rp, exist_ok=True)
        rpath = os.path.join(rp, "wire_%s_s%d.json" % (b["why"], res.seed))
        with open(rpath, "w") as f:
            json.dump(b, f)
        res.violations.append({"prop": pid, "code": b["why"], "detail": b["rec"], "family": "wire", "cls": "wire",
                               "replay": rpath})


def c08(res, wd):
    _codec_core(res, wd, "C08")
    _wire_layer(res, wd)
    # packet level: malformed / foreign packets injected at random points of otherwise valid runs
    # (handshake, running, after a disconnect); invalid payloads are chosen by the Codec specification
    rng = random.Random(res.seed * 1000 + 80)
    payloads = [[b] for b in range(128, 256, 9)] + [[0x81], [0xfd, 0xff, 0xff, 0xff, 0x0f], [2, 1], [4, 9, 9],
                                                    [0xff] * 10, [1, 0, 0], [3]]
    n, frames = sizes(res.tier, (16, 200), (120, 800))
    ps = [_forge_plan(rng, frames, payloads) for _ in range(n)]
    for pl in ps[::3]:
        pl["cfg"]["wide"] = True         # four-byte inputs: the size checks see frames of 4 bytes per player
    outs = engines.obs_runs(res, "C08", ps, {"C01", "C03", "C02", "C12", "C06"}, wd, "c08",
                            nontrivial=lambda st, pl: st.get("forgedPackets", 0) >= 5)
    # connection state: packets of every kind with another session's magic number (and packets from unknown
    # addresses) arrive from a silent peer's address during a silence around the notify delay / the timeout and
    # after a death; they are no sign of life, so Monitor.tla's exact timing predicates (interrupted after the
    # notify delay, resumed only by genuine traffic, disconnected at the timeout) must hold as if they did not exist
    fps = []
    for i in range(sizes(res.tier, 24, 150)):
        pl = _silence_plan(rng, "spec" if i % 4 == 3 else "p2p")
        pl["forge"] = {"rate": rng.choice([0.3, 0.6, 1.0]), "kinds": FOREIGN_KINDS, "after_sync": True,
                       "from": [pl["outages"][0]["from"]]}
        if i % 3 == 0:
            # the silent side dies instead: the forged packets must not postpone the Disconnected event
            pl["outages"] = []
            pl["kills"] = [{"p": 1, "at_frame": rng.randrange(20, 80)}]
            pl["forge"]["from"] = [1]
            pl.pop("fault_until", None)
            pl["frames"] = 100000
            pl["max_ms"] = 1000 + 3 * pl["cfg"]["timeout"] + 3000
            pl["after_ms"] = 0
        fps.append(pl)
    engines.obs_runs(res, "C08", fps, {"C07", "C12", "C01", "C03", "C06"}, wd, "c08f",
                     nontrivial=lambda st, pl: st.get("forgedPackets", 0) >= 5)
    # twin: the same players without any forged packet simulate the same confirmed timeline
    pairs = []
    for i, pl in enumerate(ps[:sizes(res.tier, 5, 30)]):
        if pl.get("kills"):
            continue
        q = json.loads(json.dumps(pl))
        q.pop("forge")
        q["seed"] += 3
        pairs.append((i, pl, q))

    def twin(job):
        i, pl, q = job
        a = os.path.join(wd, "fwa_%03d.ndjson" % i)
        b = os.path.join(wd, "fwb_%03d.ndjson" % i)
        core.drive([pl], a)
        core.drive([q], b)
        return i, a, b, engines.twin_compare(a, b, os.path.join(wd, "mdfw_%03d" % i))

    for i, a, b, r in core.parallel(twin, pairs, n=6):
        res.traces += 2
        bad = {p: f for p, f in r["diff"].items() if f != -1}
        if bad:
            replay = core.save_replay("C08", a, 1, "twin_%03d_s%d" % (i, res.seed))
            res.violations.append({"prop": "C08", "code": "forged-packets-changed-the-delivered-inputs",
                                   "line": 0, "detail": bad, "family": "twin", "cls": "twin", "replay": replay})
    res.extra["twin_runs"] = len(pairs)
    res.rule = ("byte level: every byte string up to 2 bytes (thorough: 3) through the real decode, validated by TLC "
                "against Codec.tla, plus mutated payloads (panic / abort / peak allocation); datagram level: raw datagrams "
                "(truncations, trailing bytes, marker values at every position, unknown variants, over-long datagrams) sent "
                "over loopback to the real UdpNonBlockingSocket, outcome judged by TLC against the grammar Wire.tla; packet level: forged input "
                "packets derived from the last genuine one (wrong number of statuses, negative start frame, payloads "
                "the Codec specification rejects, frames of the wrong size alone / before / after well-sized frames, "
                "foreign magic, unknown address) injected with probability 5-50% per tick into 2-3 peer sessions with "
                "spectators during handshake, play and after a peer died; Monitor.tla demands no panic, delivered "
                "inputs = owner-side truth, event automaton intact; Trace_Twin.tla compares with the unforged twin. "
                "non-trivial = >=5 forged packets consumed")


# ---------------------------------------------------------------------------------------------
# C13: SyncTestSession
# ---------------------------------------------------------------------------------------------

def _st_plan(rng, frames, glitch):
    players = rng.choice([1, 2, 2, 3, 4])
    window = rng.choice([2, 3, 4, 8, 8, 12])
    cd = rng.randrange(0, window)            # check_distance < max_prediction
    cfg = {"players": players, "window": window, "check_distance": cd, "sparse": False,
           "peers": [{"kind": "synctest", "locals": list(range(players)), "delay": rng.choice([0, 0, 1, 2, 5]), "host": 0}]}
    if glitch:
        cd = max(cd, 2) if window > 2 else cd
        cfg["check_distance"] = cd
        cfg["glitch_frame"] = rng.randrange(cd + 1, frames - cd - 6)
        cfg["glitch_k"] = rng.randrange(1, cd + 2)
    return {"seed": rng.randrange(1 << 30), "frames": frames, "cfg": cfg, "tick_ms": [16],
            "alphabet": rng.choice([2, 4, 16]), "change": rng.choice([0.3, 1.0]), "max_ms": frames * 40 + 2000}


def c13(res, wd):
    base = {"QL": 128, "NP": 2, "W": 4, "CD": 2, "Delay": 1, "Values": "{0, 1}", "MaxFrame": 6,
            "GlitchFrame": 999, "GlitchK": 0}
    # horizon: the glitch at frame 3 fires in call 4 (+k-1); it must be reported by call 4+k-1+CD+2
    runs = [("det_cd2", dict(base)), ("det_cd0", dict(base, CD=0)), ("det_cd3_d0", dict(base, CD=3, Delay=0)),
            ("glitch_f3_k2", dict(base, NP=1, GlitchFrame=3, GlitchK=2, MaxFrame=10)),
            ("glitch_f3_k3", dict(base, NP=1, GlitchFrame=3, GlitchK=3, MaxFrame=11)),
            # known finding (regression): a deviation on the first simulation only is never reported
            ("KF_glitch_f3_k1", dict(base, NP=1, GlitchFrame=3, GlitchK=1, MaxFrame=9))]
    if res.tier == "thorough":
        runs += [("det_np3", dict(base, NP=3, MaxFrame=5)), ("det_cd1", dict(base, CD=1)),
                 ("glitch_np2_k2", dict(base, GlitchFrame=3, GlitchK=2, MaxFrame=10))]
        runs += [("glitch_cd3_k%d" % k, dict(base, CD=3, GlitchFrame=4, GlitchK=k, MaxFrame=12, NP=1)) for k in (2, 3, 4)]
    for name, c in runs:
        cfgp = os.path.join(wd, "mc_st_%s.cfg" % name)
        engines.write_cfg(cfgp, "Spec", {k: str(v) for k, v in c.items()}, invariants=["NoViolation", "NoPanic"],
                          view="View")
        rc, out = core.tlc(os.path.join(core.SPEC, "MC_SyncTest.tla"), cfgp, os.path.join(wd, "md_st_" + name),
                           workers=8, timeout=900, xmx="8g")
        gen, dist = core.parse_tlc_stats(out)
        if name.startswith("KF_"):
            if "is violated" not in out or "first-simulation-only" not in out:
                raise core.ToolError("MC_SyncTest/%s: the model no longer exhibits the known finding" % name)
            res.add_model("MC_SyncTest/" + name, gen, dist, {"constants": c, "expected_violation": True,
                                                             "known_finding": "KF-C13-first-simulation"})
            continue
        if "is violated" in out:
            raise core.ToolError("MC_SyncTest/%s violates the monitor: the SyncTest model deviates from the "
                                 "specification of C13 or the design is defective:\n%s" % (name, out[-1500:]))
        if "Model checking completed" not in out:
            raise core.ToolError("MC_SyncTest/%s did not complete: %s" % (name, out[-1500:]))
        res.add_model("MC_SyncTest/" + name, gen, dist, {"constants": c, "exhaustive": True})
    # "valid configurations run, invalid ones must be rejected": the builder rules that concern sync tests
    # (check distance against the prediction window, player count, delay) over a window x check-distance grid
    _builder_component(res, wd, "C13",
                       {"Handles": "{0}", "PlayerCounts": "{1, 2}", "Windows": "{0, 1, 2, 3, 8}", "Delays": "{0, 2}",
                        "FpsValues": "{1}", "Intervals": "{0}", "CheckDistances": "{0, 1, 2, 3, 7, 8, 9}",
                        "BehindValues": "{60}", "CatchupValues": "{3}", "MaxCalls": 3}, tag="builder_st")
    rng = random.Random(res.seed * 1000 + 130)
    n, frames = sizes(res.tier, (24, 120), (160, 500))
    ps = [_st_plan(rng, frames, glitch=(i % 2 == 1)) for i in range(n)]
    tps = []
    # every (check distance, k-th simulation) pair: the deviation on each possible re-simulation
    for cd in range(2, sizes(res.tier, 5, 8)):
        for k in range(1, cd + 2):
            p = _st_plan(rng, frames, glitch=True)
            p["cfg"]["window"] = max(p["cfg"]["window"], cd + 1)
            p["cfg"]["check_distance"] = cd
            p["cfg"]["glitch_k"] = k
            p["cfg"]["glitch_frame"] = rng.randrange(cd + 1, frames - cd - 8)
            ps.append(p)
            if k >= 2:
                # the same deviation, but transient: only the checksum of the state saved right after the k-th
                # simulation differs (a recomputed field), later frames are unaffected
                q = json.loads(json.dumps(p))
                q["cfg"]["glitch_transient"] = True
                q["seed"] += 1
                tps.append(q)
    engines.obs_runs(res, "C13", ps, {"C13", "C02", "C03", "C01"}, wd, "c13", batch=4,
                     nontrivial=lambda st, pl: st["loads"] >= 10)
    engines.obs_runs(res, "C13", tps, {"C13", "C02"}, wd, "c13t", batch=4,
                     nontrivial=lambda st, pl: st["loads"] >= 10)
    # binding of SyncTest.tla: real sessions replayed through the specification (Trace_ST)
    sel = ps[:sizes(res.tier, 6, 30)]

    def conf(job):
        i, pl = job
        path = os.path.join(wd, "stcf_%02d.ndjson" % i)
        q = dict(pl)
        q["frames"] = min(pl["frames"], 150)
        core.drive([q], path, detail=2)
        return i, path, engines.validate_st(path, os.path.join(wd, "mdstcf_%02d" % i))

    drift = 0
    for i, path, d in core.parallel(conf, list(enumerate(sel)), n=6):
        res.traces += 1
        if d["drift"]:
            drift += 1
            res.extra.setdefault("conformance_drift", []).append({"trace": path, "first": d["drift"]})
    res.extra["conformance_synctest"] = {"sessions_replayed_through_SyncTest_tla": len(sel), "drift": drift}
    if drift:
        core.log("[C13] CONFORMANCE-DRIFT in %d/%d sync-test sessions" % (drift, len(sel)))
    res.rule = ("MC_SyncTest.tla (SyncTest.tla = sync layer + checksum history + compare-then-roll-back) explored "
                "exhaustively for 1-3 players, check distance 0..3, delay 0..1, all input sequences over {0,1} and the "
                "glitch on the k-th simulation of a frame, with the monitor as invariant; real SyncTestSessions (the glitch "
                "either carried into later frames or transient: only the checksum of the next save differs) with "
                "1-4 players, windows 2..12, every check distance below the window, delays 0..5, random inputs, and a "
                "recording game that deviates on the k-th simulation of a random frame: the monitor demands no "
                "MismatchedChecksum for the deterministic game, a report within check_distance+2 calls naming the "
                "first affected frame for the glitching one (check distance >= 2), and P2P's request-list contract "
                "with all inputs Confirmed and delayed as configured.  non-trivial = >=10 loads")


# ---------------------------------------------------------------------------------------------
# C16: builder validation and run-time misuse
# ---------------------------------------------------------------------------------------------

def _builder_component(res, wd, pid, consts, tag="builder"):
    """Builder.tla enumerates every call sequence over the given domains; each (history, next call) is replayed on
    the real SessionBuilder and the documented result compared."""
    import re
    core.build()
    cfgp = os.path.join(wd, tag + ".cfg")
    engines.write_cfg(cfgp, "Spec", {k: str(v) for k, v in consts.items()}, invariants=["Emit"], view="View")
    rc, out = core.tlc(os.path.join(core.SPEC, "Builder.tla"), cfgp, os.path.join(wd, "md_" + tag), workers=1,
                       timeout=2400, xmx="8g")
    gen, dist = core.parse_tlc_stats(out)
    if "Model checking completed" not in out:
        raise core.ToolError("Builder.tla exploration failed: %s" % out[-1500:])
    cases = os.path.join(wd, tag + "_cases.ndjson")
    n = 0
    with open(cases, "w") as f:
        for m in re.finditer(r'<<"BUILDER", "(.*)">>', out):
            f.write(m.group(1).encode().decode("unicode_escape") + "\n")
            n += 1
    res.add_model("Builder/" + tag, gen, dist, {"constants": consts, "configurations": n, "exhaustive": True})
    outp = os.path.join(wd, tag + "_mismatch.ndjson")
    rc, o = core.sh([os.path.join(core.BIN, "builder"), cases, outp], timeout=1800)
    if rc != 0:
        raise core.ToolError("builder replay failed rc=%d: %s" % (rc, o[-1500:]))
    summ = json.loads([l for l in o.splitlines() if l.startswith("{")][-1])
    res.evaluations += summ["calls"]
    res.nontrivial += summ["calls"]
    res.traces += 1
    res.extra[tag + "_replay"] = summ
    res.add_sample({"builder_case": "history of <=%s calls + every next call, expected result from Builder.tla" % consts["MaxCalls"]})
    if summ["mismatches"] or summ["panics"]:
        with open(outp) as f:
            bad = [json.loads(x) for x in f.readlines()[:3]]
        rp = os.path.join(core.REPLAYS, pid)
        os.makedirs(rp, exist_ok=True)
        rpath = os.path.join(rp, "%s_s%d.ndjson" % (tag, res.seed))
        import shutil
        shutil.copy(outp, rpath)
        for b in bad:
            res.violations.append({"prop": pid, "code": "builder-result-differs-from-documentation"
                                   if b["actual"] != "panic" else "builder-or-session-panicked",
                                   "detail": b, "family": "builder", "cls": "builder", "replay": rpath})


def c16(res, wd):
    consts = {"Handles": "{0, 1, 2, 3}", "PlayerCounts": "{0, 1, 2, 3}", "Windows": "{0, 2}", "Delays": "{16}",
              "FpsValues": "{0, 1}", "Intervals": "{0, 1}", "CheckDistances": "{0, 2}",
              "BehindValues": "{0, 59, 60}", "CatchupValues": "{0, 3}", "MaxCalls": 3}
    if res.tier == "thorough":
        consts.update({"Handles": "{0, 1, 2, 3, 4}", "PlayerCounts": "{0, 1, 2, 3, 4}", "Windows": "{0, 1, 8, 16}",
                       "Delays": "{0, 2, 16}", "CheckDistances": "{0, 1, 2, 4}", "MaxCalls": 4})
    _builder_component(res, wd, "C16", consts)
    # run-time misuse inserted at random points of otherwise valid runs; twin without misuse
    rng = random.Random(res.seed * 1000 + 160)
    nm, frames = sizes(res.tier, (12, 200), (80, 800))
    ps = [plans.misuse(rng, frames) for _ in range(nm)]
    # sessions with a remote player AND a spectator whose handshakes finish at different times under loss: advancing
    # is an error until every remote - players and spectators - has completed its handshake (C12's predicate)
    for _ in range(sizes(res.tier, 6, 24)):
        q = plans.general(rng, 120, npeers=2, spectators=rng.choice([1, 2]))
        q["p_misuse"] = 0.1
        q["cfg"]["inputs_by_frame"] = 4
        q["loss"] = rng.choice([0.1, 0.3])
        q["lat_hi"] = q["lat_lo"] + rng.choice([30, 80])
        ps.append(q)
    engines.obs_runs(res, "C16", ps, {"C16", "C01", "C03", "C02", "C12"}, wd, "c16", nontrivial=lambda st, pl: st["ticks"] >= 100)
    # SyncTestSession misuse: unknown handles, advance_frame with inputs missing (they stay registered for the
    # next call); judged by the monitor and replayed through SyncTest.tla (results of every add/advance compared)
    sps = []
    for i in range(sizes(res.tier, 6, 30)):
        sp = _st_plan(rng, 120, glitch=False)
        sp["p_misuse"] = rng.choice([0.1, 0.3])
        sps.append(sp)
    engines.obs_runs(res, "C16", sps, {"C16", "C13", "C02", "C03"}, wd, "c16st",
                     nontrivial=lambda st, pl: st["ticks"] >= 100)

    def stconf(job):
        i, pl = job
        path = os.path.join(wd, "stmis_%02d.ndjson" % i)
        core.drive([pl], path, detail=2)
        return i, path, engines.validate_st(path, os.path.join(wd, "mdstmis_%02d" % i))

    sdrift = 0
    for i, path, d in core.parallel(stconf, list(enumerate(sps[:sizes(res.tier, 4, 12)])), n=6):
        res.traces += 1
        if d["drift"]:
            sdrift += 1
            res.extra.setdefault("conformance_drift", []).append({"trace": path, "first": d["drift"]})
    res.extra["conformance_synctest_misuse"] = {"sessions": len(sps[:sizes(res.tier, 4, 12)]), "drift": sdrift}
    if sdrift:
        core.log("[C16] CONFORMANCE-DRIFT in %d sync-test misuse sessions" % sdrift)
    pairs = []
    for i, pl in enumerate(ps[:sizes(res.tier, 5, 30)]):
        q = json.loads(json.dumps(pl))
        q["p_misuse"] = 0.0
        q["seed"] += 5
        pairs.append((i, pl, q))

    def twin(job):
        i, pl, q = job
        a = os.path.join(wd, "mwa_%03d.ndjson" % i)
        b = os.path.join(wd, "mwb_%03d.ndjson" % i)
        core.drive([pl], a)
        core.drive([q], b)
        return i, a, b, engines.twin_compare(a, b, os.path.join(wd, "mdmw_%03d" % i))

    for i, a, b, r in core.parallel(twin, pairs, n=6):
        res.traces += 2
        bad = {p: f for p, f in r["diff"].items() if f != -1}
        if bad:
            replay = core.save_replay("C16", a, 1, "twin_%03d_s%d" % (i, res.seed))
            res.violations.append({"prop": "C16", "code": "misuse-changed-the-session-behaviour", "line": 0,
                                   "detail": bad, "family": "twin", "cls": "twin", "replay": replay})
    res.rule = ("Builder.tla = the documented validity rules as a state machine; TLC explores every call sequence up to "
                "MaxCalls over small value domains (handles 0..4, player counts 0..4, windows {0,1,2,8,16}, delays "
                "{0,2,16}, fps {0,1}, intervals {0,1}, check distances 0..4, max_frames_behind {0,59,60}, catch-up "
                "{0,3}, sparse) and prints per distinct configuration its history and the expected result of every next "
                "call; each (configuration, call) is replayed on the real SessionBuilder and every returned session is "
                "polled/advanced 12 times under catch_unwind.  Run-time misuse (input for a non-local handle, advance "
                "with a missing input / before synchronisation, disconnect of a local/unknown handle, delay change or "
                "stats for the wrong player type) is inserted at random points of real runs with the documented result "
                "as expectation judged by the monitor, and Trace_Twin.tla compares with the run without misuse.")


# ---------------------------------------------------------------------------------------------
# C18: internal buffers stay bounded
# ---------------------------------------------------------------------------------------------

def c18(res, wd):
    rng = random.Random(res.seed * 1000 + 180)
    nl, fl = sizes(res.tier, (3, 3000), (6, 20000))
    ps = []
    for i in range(nl):
        p = plans.general(rng, fl, spectators=rng.choice([0, 1]))
        p["p_pause"] = 0.0
        p["max_ms"] = fl * 60 + 60000
        ps.append(p)
    # all-local sessions (no remote peers), with and without a spectator
    for sp in (0, 1):
        p = plans.general(rng, sizes(res.tier, 3000, 10000), npeers=1, spectators=sp)
        p["max_ms"] = 400000
        ps.append(p)
    # events never drained
    for i in range(sizes(res.tier, 2, 5)):
        p = plans.general(rng, sizes(res.tier, 2000, 8000), npeers=rng.choice([2, 3]), spectators=rng.choice([0, 1]))
        p["drain"] = False
        p["cfg"]["notify"] = 100
        p["cfg"]["timeout"] = 600000
        p["outage_rate"] = 0.5
        p["outage_lo"] = 120
        p["outage_hi"] = 300
        p["tick_ms"] = [16] + [21] * (len(p["tick_ms"]) - 1)
        p["max_ms"] = 400000
        ps.append(p)
    # events never drained while a really diverging game produces a DesyncDetected event at every report: a quiet
    # network, so nothing but these events ever enters the queue
    for i in range(sizes(res.tier, 2, 6)):
        iv = rng.choice([1, 1, 2])
        p = plans.general(rng, 200 + 130 * iv, npeers=2, max_locals=1, cfg={"desync": iv, "sparse": False},
                          loss=0.0, dup=0.0)
        p["cfg"]["peers"][rng.randrange(2)]["corrupt_from"] = rng.randrange(1, 30)
        p["drain"] = False
        p["p_pause"] = 0.0
        p["jitter"] = 0
        p["lat_lo"] = p["lat_hi"] = rng.choice([0, 5, 20])
        p["tick_ms"] = [16, 16]
        ps.append(p)
    # a spectator that stops acknowledging (it dies): it must be disconnected, not buffered for
    for i in range(sizes(res.tier, 3, 10)):
        p = plans.general(rng, 500, npeers=rng.choice([1, 2]), spectators=1)
        n = len(p["cfg"]["peers"])
        p["kills"] = [{"p": n - 1, "at_frame": rng.randrange(5, 80)}]
        p["cfg"]["timeout"] = rng.choice([2000, 600000])     # by timeout, or only by the pending-output cap
        p["cfg"]["notify"] = 500
        p["silent_spectator_check"] = True
        p["p_pause"] = 0.0
        p["settle_ms"] = 500
        ps.append(p)
    engines.obs_runs(res, "C18", ps, {"C18"}, wd, "c18", nontrivial=lambda st, pl: st["ticks"] >= 1000, par=6)
    # the link model's history bound (receive history pruned to 2W, stream intact) is part of C05's
    # MC_Link runs; one small instance here keeps the model side of this property non-empty
    engines.mc_generic(res, wd, "link_w1_bounds", "MC_Link.tla",
                       {"W": 1, "MaxFrame": 6, "Cap": 2, "FaultBudget": 3, "SpectatorStyle": "TRUE"},
                       invariants=["HistoryBounded", "StreamIntact", "NoEndpointError"], workers=8)
    res.rule = ("buffer sizes read through the hook snapshot after every call and judged by Monitor.tla BufViol: event "
                "queue <= 100, queued outgoing local inputs <= max delay + 2, pending local inputs <= local players, "
                "unacknowledged inputs per player endpoint <= min(129, 2W + 2*max delay + 8) and per spectator endpoint "
                "<= 128 + W + 2, received-input history <= 2W + 2, stored checksums <= 33, socket queue empty after "
                "every poll; runs of 3000-20000 frames on all C01 topologies, all-local sessions, never-drained "
                "sessions with frequent interruptions, never-drained sessions of a really diverging game (a DesyncDetected "
                "event per report), and a spectator that dies (must end up Disconnected).  "
                "non-trivial = >=1000 calls")


# ---------------------------------------------------------------------------------------------
# C17: behaviour is a function of the inputs, not of hash order
# ---------------------------------------------------------------------------------------------

def _order_plan(rng, frames, kind):
    """Scenarios in which several endpoints / handles have work pending in the same call."""
    if kind == "locals":
        # 2+1 / 2+2 local players with different delays and run-time delay changes
        p = plans.delays(rng, frames, npeers=2)
        for pc in p["cfg"]["peers"]:
            if pc["kind"] == "p2p" and len(pc["locals"]) == 1 and rng.random() < 0.7:
                pass
    elif kind == "many":
        p = plans.general(rng, frames, npeers=rng.choice([3, 4]), spectators=rng.choice([0, 1, 2]))
    elif kind == "drop":
        p = plans.drop3(rng, frames)
        if rng.random() < 0.6:
            # two peers die (almost) together: both time-outs can be handled in one poll
            n = len(p["cfg"]["peers"])
            v1 = p["kills"][0]["p"]
            v2 = (v1 + 1) % n
            p["kills"].append({"p": v2, "at_frame": p["kills"][0]["at_frame"] + rng.choice([0, 1, 2])})
            p["loss"] = 0.0
            p["lat_hi"] = rng.choice([20, 60])
    else:
        p = plans.general(rng, frames, npeers=rng.choice([2, 3]), spectators=rng.choice([1, 2]))
        p["cfg"]["desync"] = rng.choice([1, 3])
    p["p_pause"] = 0.0
    return p


def c17(res, wd):
    core.build()
    reps = sizes(res.tier, 4, 16)
    n, frames = sizes(res.tier, (12, 150), (60, 500))
    rng = random.Random(res.seed * 1000 + 170)
    ps = [_order_plan(rng, frames, ["locals", "many", "drop", "spec"][i % 4]) for i in range(n)]
    for pl in ps[::5]:
        pl["cfg"]["wide"] = True
    # four peers: one reports the drop of a player, another one (silent since) still holds an older view of it;
    # the cut-off must not depend on the order in which the endpoints are asked
    ps += [plans.gossip4(rng, 40) for _ in range(sizes(res.tier, 3, 12))]
    # handshakes over a link with more than a second of latency: many requests are outstanding when the replies to
    # the oldest ones arrive
    ps += [plans.slowhs(rng, 20) for _ in range(sizes(res.tier, 2, 8))]
    # TLC-generated schedules for the 2+1-local-players and the 3-peer model are repeated as well
    scheds = []
    for tag, over in (("g21", {"Peers": "GenPeers21", "NumPlayers": 3, "MaxFrame": 6, "MaxSteps": 70, "DelayValues": "{0, 1}"}),
                      ("g3", {"Peers": "GenPeers3", "NumPlayers": 3, "MaxFrame": 5, "MaxSteps": 80, "Mortal": "{2}"})):
        sc, consts = engines.gen_schedules(wd, "c17" + tag, over, sizes(res.tier, 4, 20), 100, res.seed)
        for x in sc:
            scheds.append({"cfg": engines.scenario_of(consts), "steps": [{"a": "sync"}] + x["steps"],
                           "linkcap": int(consts["LinkCap"])})
    jobs = [(i, pl) for i, pl in enumerate(ps + scheds)]

    def one(job):
        i, pl = job
        path = os.path.join(wd, "rep_%03d.ndjson" % i)
        core.drive([pl] * reps, path)
        r = engines.rep_compare(path, os.path.join(wd, "mdrep_%03d" % i))
        o = core.validate_trace(path, os.path.join(wd, "mdrepo_%03d" % i))
        return i, pl, path, r, o

    for i, pl, path, r, o in core.parallel(one, jobs, n=8):
        res.traces += reps
        res.evaluations += 1
        res.states += o["states"]
        res.transitions += o["transitions"]
        if sum(r["calls"].values()) >= 50:
            res.nontrivial += 1
        if i < 2:
            res.add_sample({"plan_cfg": pl.get("cfg"), "repetitions": reps, "calls_per_peer": r["calls"]})
        panics = [v for v in o["viol"] if v[1] == "PANIC" and not (isinstance(v[4], list) and v[4] and
                  isinstance(v[4][-1], str) and "unequal-views" in v[4][-1])]
        if r["diff"]:
            replay = os.path.join(core.REPLAYS, "C17")
            os.makedirs(replay, exist_ok=True)
            rp = os.path.join(replay, "rep_%03d_s%d.ndjson" % (i, res.seed))
            import shutil
            shutil.copy(path, rp)
            res.violations.append({"prop": "C17", "code": "repeated-runs-differ", "line": 0, "detail": r["diff"],
                                   "family": "rep", "cls": "rep", "replay": rp})
        else:
            for pth in (path, path + ".plans.json"):
                try:
                    os.remove(pth)
                except OSError:
                    pass
    res.rule = ("every plan / TLC-generated schedule is executed %d times inside one process (fresh hash-map random "
                "states, nonces and magic numbers each time); Trace_Rep.tla compares, run against run, per peer the "
                "sequence of advance_frame results, request lists with inputs/statuses, frames and game states call by "
                "call, and per peer and remote address the event sequence.  Scenarios are biased to states where "
                "several endpoints/handles have work in the same call: 2+1 / 2+2 local players with delay changes, 3-4 "
                "peers with spectators, dying peers, desync reports, four peers with differing reports about a dropped player.  non-trivial = >=50 calls compared" % reps)
    res.assumptions += ["the schedule (API calls, delivered packets in per-link order, clock) is identical across the "
                        "repetitions because the driver decides packet fates in (destination, send order)"]


# ---------------------------------------------------------------------------------------------
# C15: time-sync estimates and wait advice
# ---------------------------------------------------------------------------------------------

def _lead_plan(k, lat, fps, seed):
    """Two peers, symmetric constant latency, equal tick rates; after a warm-up one peer skips |k|
    ticks, so the other runs |k| frames ahead from then on."""
    tick = 1000 // fps
    behind = 1 if k > 0 else 0                # peer 0 leads for k > 0
    cfg = {"players": 2, "window": 12, "sparse": False, "predictor": "repeat", "desync": 0, "fps": fps,
           "timeout": 2000, "notify": 500, "max_behind": 10, "catchup": 1, "max_delay": 8,
           "timesync": {"on": True, "warmup": 1200 + abs(k) * tick + 31 * tick + 2 * lat, "lat": lat, "tick": tick},
           "peers": [{"kind": "p2p", "locals": [0], "delay": 0, "host": 0},
                     {"kind": "p2p", "locals": [1], "delay": 0, "host": 0}]}
    return {"seed": seed, "frames": 10 ** 9, "cfg": cfg, "tick_ms": [tick, tick], "jitter": 0,
            "lat_lo": lat, "lat_hi": lat, "loss": 0.0, "dup": 0.0, "alphabet": 4, "change": 0.3,
            "holds": [{"p": behind, "at_frame": 20, "ticks": abs(k)}] if k != 0 else [],
            "p_stats": 0.3, "drain": True, "max_ms": 1200 + 4500 + abs(k) * tick, "_k": k}


def c15(res, wd):
    core.build()
    # (1) the window arithmetic: records of the real TimeSync validated against TimeSync.tla
    import re
    rec = os.path.join(wd, "timesync.ndjson")
    nrec = sizes(res.tier, 1500, 20000)
    rc, o = core.sh([os.path.join(core.BIN, "timesync"), rec, str(res.seed), str(nrec)], timeout=600)
    if rc != 0:
        raise core.ToolError("timesync probe failed: %s" % o[-800:])
    rc, out = core.tlc(os.path.join(core.SPEC, "Trace_TimeSync.tla"), os.path.join(core.SPEC, "Trace_TimeSync.cfg"),
                       os.path.join(wd, "md_ts"), env={"TRACE": rec}, timeout=1500, xmx="4g")
    m = re.search(r'<<"TS-RESULT", "(.*)">>', out)
    if not m:
        raise core.ToolError("Trace_TimeSync produced no result: %s" % out[-1500:])
    tsr = json.loads(m.group(1).encode().decode("unicode_escape"))
    res.evaluations += tsr["records"]
    res.nontrivial += tsr["records"]
    res.extra["window_arithmetic"] = {"records": tsr["records"], "bad": tsr["bad"], "steady_lead_theorems": tsr["theorems"]}
    if tsr["bad"] or not tsr["theorems"]:
        res.violations.append({"prop": "C15", "code": "window-average-differs-from-specification",
                               "detail": tsr["first"], "family": "timesync-window", "cls": "window", "replay": rec})
    # (2) closed loop on real sessions: every lead, latency, fps
    ps = []
    leads = list(range(-7, 8))
    lats = [0, 8, 16, 33, 50, 100, 150]          # 150: the round trip exceeds the interval between quality reports
    grid = [(k, l, f) for k in leads for l in lats for f in (60, 30)]
    rng = random.Random(res.seed * 1000 + 150)
    if res.tier == "quick":
        grid = rng.sample(grid, 24) + [(0, 16, 60), (7, 0, 60), (-7, 8, 60), (3, 50, 30), (0, 150, 60), (2, 150, 30),
                                       (1, 100, 60)]
    for (k, l, f) in grid:
        if abs(k) + (l * f) // 1000 + 1 > 10:       # the leader must stay inside its prediction window
            continue
        ps.append(_lead_plan(k, l, f, rng.randrange(1 << 30)))
    engines.obs_runs(res, "C15", ps, {"C15"}, wd, "c15", nontrivial=lambda st, pl: st["ticks"] >= 200,
                     cls_of=lambda p: "lead%d" % p["_k"])
    # (2b) the peer that lagged k frames behind drops out: with no connected remote left frames_ahead is 0 again and
    # no WaitRecommendation is raised any more (the closed-loop predicates need two live peers and are off here)
    dps = []
    for k in sizes(res.tier, [3, 5], [1, 2, 3, 4, 5, 6]):
        q = _lead_plan(k, 16, 60, rng.randrange(1 << 30))
        q["cfg"].pop("timesync")
        q["cfg"]["timeout"] = 600
        q["cfg"]["notify"] = 300
        q["kills"] = [{"p": 1, "at_frame": 130}]
        q["p_stats"] = 0.0           # network_stats for a dropped peer is an error by design
        q["max_ms"] = 1200 + 6500
        dps.append(q)
    engines.obs_runs(res, "C15", dps, {"C15"}, wd, "c15d", nontrivial=lambda st, pl: st["discInputs"] >= 50,
                     cls_of=lambda p: "lagdrop%d" % p["_k"])
    # (3) the recommendation gate is judged on every drained WaitRecommendation of these and all runs
    # (4) binding: random runs that query network_stats() at random points (also too early, for invalid handles,
    # on spectators) replayed through System.tla - result and all four figures must equal the specification's
    sps = plans.batch(res.seed * 1000 + 151, sizes(res.tier, 4, 16), 60, fam=plans.with_stats)
    engines.conform_sample(res, "C15", sps, wd, "c15s", len(sps))
    res.rule = ("(1) TimeSync.tla: 30-slot windows; F32.tla gives the code's f32 average as an exact integer function; "
                "records of the real window under random and adversarial sequences must EQUAL it (TLC); "
                "(4) network_stats() results of random runs compared with the specification (Trace_Sys); (2) real two-peer "
                "sessions under the virtual clock for every lead -7..7 x one-way latency {0,8,16,33,50,100,150} ms x fps "
                "{30,60} that keeps the leader inside its window; after the warm-up Monitor.tla demands on every call "
                "|frames_ahead - real lead| <= 2 and |sum of both peers' frames_ahead| <= 2, on every network_stats call "
                "ping in [2L, 2L + 2 ticks], local figure = the peer's remote figure (+-2), errors before one second; "
                "WaitRecommendation only with skip = frames_ahead >= 3 and >= 60 frames apart.  'About' is +-2 frames "
                "here: +-1 estimation, +-1 because the two sessions are sampled at different instants.")
    res.assumptions += ["equal input delays (a delay difference d biases frames_ahead by d/2 by construction)",
                        "f32 model validated for window sums up to +-30720 (|advantage| <= 1024 per slot)"]


CHECKS = {
    "C01": c01,
    "C02": c02,
    "C03": c03,
    "C04": c04,
    "C05": c05,
    "C06": c06,
    "C07": c07,
    "C08": c08,
    "C09": c09,
    "C10": c10,
    "C11": c11,
    "C12": c12,
    "C13": c13,
    "C14": c14,
    "C15": c15,
    "C16": c16,
    "C17": c17,
    "C18": c18,
}


def replay(res, wd, path):
    """Re-execute the schedule of a recorded trace on the current tree and judge it again."""
    with open(path) as f:
        first = f.readline()
    if not first.startswith('{"a":"cfg"'):
        # codec / builder artefacts are records, not schedules: the whole (deterministic, exhaustive) check is
        # the replay
        core.log("[%s] %s is not a schedule trace; re-running the check" % (res.pid, path))
        CHECKS[res.pid](res, wd)
        return res.finish()
    with open(path) as f:
        lines = [json.loads(x) for x in f if x.strip()]
    cfg = lines[0]["cfg"]
    steps = [l for l in lines[1:] if l.get("a") not in ("end", "cfg")]
    # packet ids are deterministic for an unchanged implementation; prefer positions when logged
    for s in steps:
        if s.get("a") in ("dlv", "drop", "dup") and "k" in s and s["k"] >= 0:
            s.pop("id", None)
    out = os.path.join(wd, "replay.ndjson")
    core.drive([{"cfg": cfg, "steps": steps}], out, detail=0)
    r = core.validate_trace(out, os.path.join(wd, "md_replay"))
    res.traces = 1
    for v in r["viol"]:
        if v[1] == res.pid or v[1] == "PANIC":
            res.violations.append({"prop": v[1], "code": v[3], "line": v[2], "detail": v[4],
                                   "family": "replay", "cls": "replay", "replay": path})
    res.evaluations = 1
    res.nontrivial = 2
    res.add_sample({"replayed": path, "stats": r["stats"]})
    return res.finish(write_evidence=False)


def selftest(res, wd):
    """Demonstrates the binding of the specification to the code: every tampering with a recorded trace
    must be rejected, and the regression model runs must find their counterexamples."""
    core.build()
    rng = random.Random(7)
    plan = plans.general(rng, 120, npeers=2, max_locals=1, window=4)
    plan["loss"] = 0.1
    base = os.path.join(wd, "base.ndjson")
    core.drive([plan], base, detail=2)
    ok = engines.validate_sys(base, os.path.join(wd, "md_base"))
    results = [("untampered trace accepted by Trace_Sys", not ok["drift"])]
    with open(base) as f:
        lines = [json.loads(x) for x in f]

    def write(name, ls):
        pth = os.path.join(wd, name)
        with open(pth, "w") as f:
            for l in ls:
                f.write(json.dumps(l) + "\n")
        return pth

    # 1. one internal field of one snapshot changed
    t1 = json.loads(json.dumps(lines))
    for l in t1[len(t1) // 2:]:
        if l.get("a") == "tick" and l.get("r") == "ok" and "sn" in l:
            l["sn"]["sync"]["queues"][0]["last_requested"] += 1
            break
    d1 = engines.validate_sys(write("t1.ndjson", t1), os.path.join(wd, "md_t1"))
    results.append(("corrupted snapshot field rejected (drift reported)", bool(d1["drift"])))
    # 2. one delivery step removed
    t2 = list(lines)
    for i, l in enumerate(t2):
        if i > len(t2) // 2 and l.get("a") == "dlv":
            del t2[i]
            break
    d2 = engines.validate_sys(write("t2.ndjson", t2), os.path.join(wd, "md_t2"))
    results.append(("removed delivery step rejected (drift reported)", bool(d2["drift"])))
    # 3. two API calls swapped
    t3 = list(lines)
    idx = [i for i, l in enumerate(t3) if l.get("a") == "tick" and l.get("r") == "ok"]
    a, b = idx[len(idx) // 2], idx[len(idx) // 2 + 1]
    t3[a], t3[b] = t3[b], t3[a]
    d3 = engines.validate_sys(write("t3.ndjson", t3), os.path.join(wd, "md_t3"))
    results.append(("swapped calls rejected (drift reported)", bool(d3["drift"])))
    # 4. an input value handed to the game changed: the property monitor must object
    t4 = json.loads(json.dumps(lines))
    done = False
    for l in t4[len(t4) // 2:]:
        if l.get("a") == "tick" and l.get("r") == "ok":
            for rq in l.get("q", []):
                if rq[0] == "A" and rq[1][1][1] == 0:
                    rq[1][1][0] = (rq[1][1][0] + 1) % 4
                    done = True
                    break
        if done:
            break
    try:
        o4 = core.validate_trace(write("t4.ndjson", t4), os.path.join(wd, "md_t4"))
        results.append(("changed confirmed input flagged by the monitor", any(v[1] in ("C01", "C03", "TOOL") for v in o4["viol"])))
    except core.ToolError:
        results.append(("changed confirmed input flagged by the monitor", True))
    # 5. regression model runs (pinned pre-fix behaviour must violate)
    try:
        engines.mc_generic(res, wd, "self_link_pinned", "MC_Link.tla",
                           {"W": 1, "MaxFrame": 6, "Cap": 2, "FaultBudget": 3, "SpectatorStyle": "TRUE"},
                           invariants=LINK_INV, props=["NoWedge"], overrides={"AckUndecodable": "PinnedBehaviour"},
                           expect_violation=True, workers=6)
        results.append(("MC_Link with the pinned behaviour finds the wedge", True))
    except core.ToolError:
        results.append(("MC_Link with the pinned behaviour finds the wedge", False))
    # 6. datagram layer: a record that claims a truncated datagram was accepted / a well-formed one dropped
    import re
    wrec = os.path.join(wd, "wire_self.ndjson")
    core.sh([WIRE_BIN, wrec, "1", "50"], timeout=300)
    with open(wrec) as f:
        wl = [json.loads(x) for x in f]

    def wire_bad(ls, name):
        pth = write(name, ls)
        rc, out = core.tlc(os.path.join(core.SPEC, "Trace_Wire.tla"), os.path.join(core.SPEC, "Trace_Wire.cfg"),
                           os.path.join(wd, "md_" + name), env={"TRACE": pth}, timeout=600, xmx="3g")
        m = re.search(r'<<"WIRE-RESULT", "(.*)">>', out)
        return json.loads(m.group(1).encode().decode("unicode_escape"))["bad"] if m else -1

    results.append(("untampered datagram records accepted by Trace_Wire", wire_bad(wl, "w0.ndjson") == 0))
    w1 = json.loads(json.dumps(wl))
    for r in w1:
        if r["k"] == "rx" and r["res"] and len(r["data"]) == len(r["res"]) and len(r["data"]) > 8:
            r["data"] = r["data"][:-1]          # the datagram was one byte shorter, yet "accepted"
            break
    results.append(("truncated datagram recorded as accepted is rejected", wire_bad(w1, "w1.ndjson") == 1))
    w2 = json.loads(json.dumps(wl))
    for r in w2:
        if r["k"] == "rx" and r["res"] and len(r["data"]) == len(r["res"]):
            r["res"] = []
            r["n"] = 0                          # a well-formed datagram recorded as dropped
            break
    results.append(("well-formed datagram recorded as dropped is rejected", wire_bad(w2, "w2.ndjson") == 1))
    for name, good in results:
        print("%-70s %s" % (name, "ok" if good else "FAILED"))
    return 0 if all(g for _, g in results) else 2
