"""Per-property checks.  Each function fills a core.Result; `check` turns it into evidence,
KNOWN-FINDING / VIOLATION lines and the exit code."""
import random

from . import core, engines, plans


def sizes(tier, quick, thorough):
    return thorough if tier == "thorough" else quick


# ---------------------------------------------------------------------------------------------
# C01 - C04: rollback core, judged by the monitor on traces of the real sessions
# ---------------------------------------------------------------------------------------------

def _rollback_nontrivial(st, plan):
    return st["loads"] >= 1 and st["maxDepth"] >= 2 and st["verified"] >= 20


def c01(res, wd):
    n, frames = sizes(res.tier, (16, 500), (120, 2500))
    ps = plans.batch(res.seed * 1000 + 1, n, frames)
    # a few long runs that wrap the 128-slot input ring, the cell ring and the time-sync window
    nl, fl = sizes(res.tier, (2, 2000), (6, 12000))
    ps += plans.batch(res.seed * 1000 + 2, nl, fl, p_pause=0.0)
    engines.obs_runs(res, "C01", ps, {"C01"}, wd, "c01", nontrivial=_rollback_nontrivial)
    res.rule = ("random scenario per run (2-4 peers, 1-2 local players each, window 1..12, delays 0..4, "
                "sparse on/off, both predictors, loss/dup/reorder, unequal tick rates); a run is "
                "non-trivial if it contained >=1 rollback of depth >=2 and >=20 frames were verified final")
    res.assumptions += ["the user executes request lists in order (harness game)",
                        "faults stay below the disconnect timeout in this family"]


CHECKS = {
    "C01": c01,
}
