"""Engines shared by the per-property checks."""
import json
import os

from . import core


def obs_runs(res, pid, plans, props, wd, tag, nontrivial=None, detail=0, panic_is_violation=True,
             cls_of=None, par=8):
    """impl -> spec: run every plan on the real sessions, validate the trace with the TLA+ monitor
    (spec/Trace_Obs.tla) and collect the violations of the properties in `props`.

    nontrivial(stats, plan) -> bool decides whether a run exercised the property's mechanism.
    cls_of(plan) -> scenario class label used to match known findings."""
    core.build()
    jobs = []
    for i, plan in enumerate(plans):
        jobs.append((i, plan, os.path.join(wd, "%s_%03d.ndjson" % (tag, i))))

    def one(job):
        i, plan, path = job
        core.drive([plan], path, detail=detail)
        r = core.validate_trace(path, os.path.join(wd, "md_%s_%03d" % (tag, i)))
        return (i, plan, path, r)

    outs = core.parallel(one, jobs, n=par)
    for i, plan, path, r in outs:
        res.traces += 1
        res.evaluations += 1
        res.states += r["states"]
        res.transitions += r["transitions"]
        st = r["stats"]
        if nontrivial is None or nontrivial(st, plan):
            res.nontrivial += 1
        if i < 2:
            res.add_sample({"family": tag, "cfg": plan.get("cfg"), "frames": plan.get("frames"),
                            "loss": plan.get("loss"), "stats": st})
        for k, v in st.items():
            res.extra.setdefault("trace_stats", {}).setdefault(k, 0)
            if k == "maxDepth":
                res.extra["trace_stats"][k] = max(res.extra["trace_stats"][k], v)
            else:
                res.extra["trace_stats"][k] += v
        seen = set()
        for v in r["viol"]:
            run, prop, n, code, det = v[0], v[1], v[2], v[3], v[4]
            if prop == "TOOL":
                raise core.ToolError("monitor/harness inconsistency in %s line %s: %s %s" % (path, n, code, det))
            is_panic = prop == "PANIC"
            if not (prop in props or (is_panic and panic_is_violation)):
                continue
            key = (prop, code)
            if key in seen:
                continue
            seen.add(key)
            replay = core.save_replay(pid, path, run, "%s_%03d_s%d" % (tag, i, res.seed))
            res.violations.append({
                "prop": prop, "code": code, "line": n, "detail": det, "family": tag,
                "cls": cls_of(plan) if cls_of else tag, "replay": replay,
            })
        if not r["viol"]:
            try:
                os.remove(path)
                os.remove(path + ".plans.json")
            except OSError:
                pass
    return outs


def mc_run(res, name, module, cfg, wd, workers=8, timeout=900, extra=None, expect_actions=None,
           xmx="6g", env=None):
    """Exhaustive / simulated TLC run of a model-checking configuration.  Returns TLC's output.
    Raises ToolError on TLC errors other than property violations; a violated invariant or
    temporal property is returned as (False, out)."""
    rc, out = core.tlc(os.path.join(core.SPEC, module), os.path.join(core.SPEC, cfg),
                       os.path.join(wd, "md_" + name), workers=workers, timeout=timeout,
                       extra=(extra or []) + ["-coverage", "1"], xmx=xmx, env=env)
    gen, dist = core.parse_tlc_stats(out)
    violated = ("is violated" in out) or ("Temporal properties were violated" in out) or \
               ("Deadlock reached" in out)
    if rc != 0 and not violated:
        raise core.ToolError("TLC failed on %s/%s rc=%d:\n%s" % (module, cfg, rc, out[-4000:]))
    cov = {}
    # per-action coverage lines:  <Action line .. of module M>: distinct:generated
    import re
    for m in re.finditer(r"^<(\w+) line \d+, col \d+ to line \d+, col \d+ of module (\w+)>: (\d+):(\d+)", out, re.M):
        cov[m.group(1)] = cov.get(m.group(1), 0) + int(m.group(4))
    if expect_actions:
        missing = [a for a in expect_actions if cov.get(a, 0) == 0]
        if missing and not violated:
            raise core.ToolError("vacuous model run %s: actions never taken: %s" % (name, missing))
    res.add_model(name, gen, dist, {"actions": cov, "violated": violated})
    return (not violated), out
