"""Engines shared by the per-property checks."""
import json
import os

from . import core


def obs_runs(res, pid, plans, props, wd, tag, nontrivial=None, detail=0, panic_is_violation=True,
             cls_of=None, par=8, batch=1, nontrivial_stat=None):
    """impl -> spec: run every plan on the real sessions, validate the trace with the TLA+ monitor
    (spec/Trace_Obs.tla) and collect the violations of the properties in `props`.

    nontrivial(stats, plan) -> bool decides whether a run exercised the property's mechanism.
    cls_of(plan) -> scenario class label used to match known findings."""
    core.build()
    jobs = []
    groups = core.chunks(plans, batch)
    for i, grp in enumerate(groups):
        jobs.append((i, grp, os.path.join(wd, "%s_%03d.ndjson" % (tag, i))))

    def one(job):
        i, grp, path = job
        core.drive(grp, path, detail=detail)
        r = core.validate_trace(path, os.path.join(wd, "md_%s_%03d" % (tag, i)))
        return (i, grp, path, r)

    outs = core.parallel(one, jobs, n=par)
    for i, grp, path, r in outs:
        plan = grp[0]
        res.traces += len(grp)
        res.evaluations += len(grp)
        res.states += r["states"]
        res.transitions += r["transitions"]
        st = r["stats"]
        if nontrivial_stat is not None:
            res.nontrivial += min(len(grp), st.get(nontrivial_stat, 0))
        elif nontrivial is None or nontrivial(st, plan):
            res.nontrivial += len(grp)
        if i < 2:
            res.add_sample({"family": tag, "cfg": plan.get("cfg"), "frames": plan.get("frames"),
                            "loss": plan.get("loss"), "stats": st})
        for k, v in st.items():
            res.extra.setdefault("trace_stats", {}).setdefault(k, 0)
            if k == "maxDepth":
                res.extra["trace_stats"][k] = max(res.extra["trace_stats"][k], v)
            else:
                res.extra["trace_stats"][k] += v
        seen = set()
        for v in r["viol"]:
            run, prop, n, code, det = v[0], v[1], v[2], v[3], v[4]
            if prop == "TOOL":
                raise core.ToolError("monitor/harness inconsistency in %s line %s: %s %s" % (path, n, code, det))
            is_panic = prop == "PANIC"
            if not (prop in props or (is_panic and panic_is_violation)):
                continue
            key = (prop, code)
            if key in seen:
                continue
            seen.add(key)
            replay = core.save_replay(pid, path, run, "%s_%03d_s%d" % (tag, i, res.seed))
            cls = cls_of(grp[min(run, len(grp)) - 1]) if cls_of else tag
            if isinstance(det, list) and det and isinstance(det[-1], str) and det[-1].startswith("cls:"):
                cls = det[-1][4:]       # history class computed by the TLA+ monitor
            res.violations.append({
                "prop": prop, "code": code, "line": n, "detail": det, "family": tag,
                "cls": cls, "replay": replay,
            })
        if not r["viol"]:
            try:
                os.remove(path)
                os.remove(path + ".plans.json")
            except OSError:
                pass
    return outs


def conform_sample(res, pid, plans, wd, tag, k):
    """Binding on random executions: the first k plans are run again with full snapshots and every
    packet logged, and Trace_Sys replays them through System.tla.  Drift is recorded, never a violation."""
    core.build()
    sel = [p for p in plans if not any(pc["kind"] == "synctest" for pc in p["cfg"]["peers"])][:k]
    jobs = [(i, p, os.path.join(wd, "%s_cf%02d.ndjson" % (tag, i))) for i, p in enumerate(sel)]

    def one(job):
        i, p, path = job
        q = dict(p)
        q["frames"] = min(int(p.get("frames", 200)), 250)      # Trace_Sys is ~250 lines/s
        q["max_ms"] = min(int(p.get("max_ms", 60000)), 15000)
        if q.get("fault_until"):
            q["fault_until"] = min(q["fault_until"], 6000)
        core.drive([q], path, detail=2)
        return i, path, validate_sys(path, os.path.join(wd, "mdcf_%s_%02d" % (tag, i)), timeout=1500)

    drift = 0
    for i, path, d in core.parallel(one, jobs, n=6):
        res.traces += 1
        res.states += d["states"]
        res.transitions += d["states"]
        if d["drift"]:
            drift += 1
            res.extra.setdefault("conformance_drift", []).append({"trace": path, "first": d["drift"]})
        else:
            for pth in (path, path + ".plans.json"):
                try:
                    os.remove(pth)
                except OSError:
                    pass
    res.extra["conformance_" + tag] = {"random_runs_replayed_through_System": len(sel), "drift": drift}
    if drift:
        core.log("[%s] CONFORMANCE-DRIFT in %d/%d random runs (%s)" % (pid, drift, len(sel), tag))


def mc_run(res, name, module, cfg, wd, workers=8, timeout=900, extra=None, expect_actions=None,
           xmx="6g", env=None):
    """Exhaustive / simulated TLC run of a model-checking configuration.  Returns TLC's output.
    Raises ToolError on TLC errors other than property violations; a violated invariant or
    temporal property is returned as (False, out)."""
    rc, out = core.tlc(os.path.join(core.SPEC, module), os.path.join(core.SPEC, cfg),
                       os.path.join(wd, "md_" + name), workers=workers, timeout=timeout,
                       extra=(extra or []) + ["-coverage", "1"], xmx=xmx, env=env)
    gen, dist = core.parse_tlc_stats(out)
    violated = ("is violated" in out) or ("Temporal properties were violated" in out) or \
               ("Deadlock reached" in out)
    if rc != 0 and not violated:
        raise core.ToolError("TLC failed on %s/%s rc=%d:\n%s" % (module, cfg, rc, out[-4000:]))
    cov = {}
    # per-action coverage lines:  <Action line .. of module M>: distinct:generated
    import re
    for m in re.finditer(r"^<(\w+) line \d+, col \d+ to line \d+, col \d+ of module (\w+)>: (\d+):(\d+)", out, re.M):
        cov[m.group(1)] = cov.get(m.group(1), 0) + int(m.group(4))
    if expect_actions:
        missing = [a for a in expect_actions if cov.get(a, 0) == 0]
        if missing and not violated:
            raise core.ToolError("vacuous model run %s: actions never taken: %s" % (name, missing))
    res.add_model(name, gen, dist, {"actions": cov, "violated": violated})
    return (not violated), out


# ---------------------------------------------------------------------------------------------
# spec -> impl: TLC-generated schedules replayed on the real sessions
# ---------------------------------------------------------------------------------------------

GEN_DEFAULTS = {
    "QL": "128", "Peers": "GenPeers2", "NumPlayers": "2", "Window": "2", "Sparse": "FALSE",
    "PredDefault": "FALSE", "DesyncInterval": "0", "Fps": "60", "Timeout": "2000", "Notify": "500",
    "Values": "GenValues", "MaxFrame": "8", "LinkCap": "2", "DupBudget": "1", "ClockSteps": "NoClock",
    "MaxClock": "1000000", "PreSynced": "TRUE", "InboxCap": "2", "Mortal": "{}", "MaxBehind": "10", "Catchup": "1", "EagerNet": "FALSE", "DelayValues": "{}", "VaryAll": "TRUE",
    "Granular": "TRUE", "WaitMs": "0",
    "MaxSteps": "80",
}
GEN_SUBST = {"Peers", "Values", "ClockSteps"}

GEN_PEERS = {
    "GenPeers1s": (1, [{"kind": "p2p", "locals": [0], "delay": 0, "host": 0},
                       {"kind": "spec", "locals": [], "delay": 0, "host": 0}]),
    "GenPeers2s": (2, [{"kind": "p2p", "locals": [0], "delay": 0, "host": 0},
                       {"kind": "p2p", "locals": [1], "delay": 0, "host": 0},
                       {"kind": "spec", "locals": [], "delay": 0, "host": 1}]),
    "GenPeers2": (2, [{"kind": "p2p", "locals": [0], "delay": 0, "host": 0},
                      {"kind": "p2p", "locals": [1], "delay": 0, "host": 0}]),
    "GenPeers2d": (2, [{"kind": "p2p", "locals": [0], "delay": 1, "host": 0},
                       {"kind": "p2p", "locals": [1], "delay": 0, "host": 0}]),
    "GenPeers21": (3, [{"kind": "p2p", "locals": [0, 1], "delay": 0, "host": 0},
                       {"kind": "p2p", "locals": [2], "delay": 1, "host": 0}]),
    "GenPeers3": (3, [{"kind": "p2p", "locals": [0], "delay": 0, "host": 0},
                      {"kind": "p2p", "locals": [1], "delay": 0, "host": 0},
                      {"kind": "p2p", "locals": [2], "delay": 0, "host": 0}]),
}


def write_cfg(path, spec, consts, invariants=(), props=(), view=None, postcondition=None, constraint=None):
    lines = ["SPECIFICATION %s" % spec, "CONSTANTS"]
    for k, v in consts.items():
        if isinstance(v, str) and v[:1] == "{":
            lines.append("  %s = %s" % (k, v))
        elif k in GEN_SUBST or (isinstance(v, str) and v[:1].isalpha() and v not in ("TRUE", "FALSE")):
            lines.append("  %s <- %s" % (k, v))
        else:
            lines.append("  %s = %s" % (k, v))
    if invariants:
        lines.append("INVARIANTS " + " ".join(invariants))
    if props:
        lines.append("PROPERTIES " + " ".join(props))
    if view:
        lines.append("VIEW " + view)
    if constraint:
        lines.append("CONSTRAINT " + constraint)
    if postcondition:
        lines.append("POSTCONDITION " + postcondition)
    lines.append("CHECK_DEADLOCK FALSE")
    with open(path, "w") as f:
        f.write("\n".join(lines) + "\n")


def gen_schedules(wd, tag, over, num, depth, seed, module="MC_Gen", timeout=600):
    """tlc -simulate on MC_Gen with the given constant overrides; returns (schedules, consts)."""
    import re
    consts = dict(GEN_DEFAULTS)
    consts.update({k: str(v) for k, v in over.items()})
    cfgp = os.path.join(wd, "gen_%s.cfg" % tag)
    write_cfg(cfgp, "GenSpec", consts, invariants=["EmitSchedule"])
    rc, out = core.tlc(os.path.join(core.SPEC, module + ".tla"), cfgp, os.path.join(wd, "md_gen_" + tag),
                       extra=["-simulate", "num=%d" % num, "-depth", str(depth), "-seed", str(seed)],
                       timeout=timeout, xmx="4g")
    scheds = []
    for m in re.finditer(r'<<"SCHED", "(.*)">>', out):
        payload = m.group(1).encode().decode("unicode_escape")
        scheds.append(json.loads(payload))
    if not scheds:
        raise core.ToolError("no schedules generated by %s (%s): %s" % (module, tag, out[-2000:]))
    return scheds, consts


def scenario_of(consts):
    players, peers = GEN_PEERS[consts["Peers"]]
    return {
        "players": players, "window": int(consts["Window"]), "sparse": consts["Sparse"] == "TRUE",
        "predictor": "default" if consts["PredDefault"] == "TRUE" else "repeat",
        "desync": int(consts["DesyncInterval"]), "fps": int(consts["Fps"]),
        "timeout": int(consts["Timeout"]), "notify": int(consts["Notify"]),
        "max_behind": int(consts.get("MaxBehind", 10)), "catchup": int(consts.get("Catchup", 1)),
        "max_delay": 8, "peers": peers,
        "waitapi": int(consts.get("WaitMs", 0)) > 0, "wait_ms": int(consts.get("WaitMs", 0)),
    }


def validate_sys(trace, metadir, timeout=900):
    """Conformance: replay a detail-2 trace of the real code through System.tla (Trace_Sys)."""
    import re
    rc, out = core.tlc(os.path.join(core.SPEC, "Trace_Sys.tla"), os.path.join(core.SPEC, "Trace_Sys.cfg"),
                       metadir, env={"TRACE": trace}, timeout=timeout, xmx="4g")
    m = re.search(r'<<"SYS-RESULT", "(.*)">>', out)
    if not m or "SYS-INCOMPLETE" in out:
        raise core.ToolError("Trace_Sys produced no result for %s (rc=%d):\n%s" % (trace, rc, out[-3000:]))
    res = json.loads(m.group(1).encode().decode("unicode_escape"))
    gen, dist = core.parse_tlc_stats(out)
    res["states"] = dist
    return res


def s2i_runs(res, pid, wd, tag, over, num, depth, props, presync=True, conform=True, par=8,
             module="MC_Gen", cls=None):
    """Generate schedules with TLC, replay them on the real sessions, judge the real traces with
    the monitor (verdict) and with Trace_Sys (binding; drift is recorded, never a violation)."""
    core.build()
    scheds, consts = gen_schedules(wd, tag, over, num, depth, res.seed, module=module)
    scen = scenario_of(consts)
    cap = int(consts["LinkCap"])
    jobs = []
    for i, sc in enumerate(scheds):
        steps = ([{"a": "sync"}] if presync else []) + sc["steps"]
        jobs.append((i, {"cfg": scen, "steps": steps, "linkcap": cap},
                     os.path.join(wd, "%s_%03d.ndjson" % (tag, i)), sc.get("viol", [])))

    def one(job):
        i, sched, path, mviol = job
        core.drive([sched], path, detail=2)
        r = core.validate_trace(path, os.path.join(wd, "mdo_%s_%03d" % (tag, i)))
        d = validate_sys(path, os.path.join(wd, "mds_%s_%03d" % (tag, i))) if conform else None
        return (i, sched, path, r, d, mviol)

    outs = core.parallel(one, jobs, n=par)
    drift = 0
    for i, sched, path, r, d, mviol in outs:
        res.traces += 1
        res.evaluations += 1
        res.states += r["states"]
        res.transitions += r["transitions"]
        if r["stats"]["loads"] >= 1 or r["stats"]["stalls"] >= 1:
            res.nontrivial += 1
        if i == 0:
            res.add_sample({"family": tag, "schedule_head": sched["steps"][:12], "stats": r["stats"]})
        if d is not None and d["drift"]:
            drift += 1
            res.extra.setdefault("conformance_drift", []).append({"trace": path, "first": d["drift"]})
        seen = set()
        for v in r["viol"]:
            run, prop, n, code, det = v[0], v[1], v[2], v[3], v[4]
            if prop == "TOOL":
                raise core.ToolError("monitor/harness inconsistency in %s line %s: %s %s" % (path, n, code, det))
            if not (prop in props or prop == "PANIC"):
                continue
            if (prop, code) in seen:
                continue
            seen.add((prop, code))
            replay = core.save_replay(pid, path, run, "%s_%03d_s%d" % (tag, i, res.seed))
            vcls = cls or tag
            if isinstance(det, list) and det and isinstance(det[-1], str) and det[-1].startswith("cls:"):
                vcls = det[-1][4:]       # history class computed by the TLA+ monitor
            res.violations.append({"prop": prop, "code": code, "line": n, "detail": det, "family": tag,
                                   "cls": vcls, "replay": replay})
        if not r["viol"] and not (d and d["drift"]):
            for pth in (path, path + ".plans.json"):
                try:
                    os.remove(pth)
                except OSError:
                    pass
    res.extra["s2i_" + tag] = {"schedules": len(scheds), "conformance_checked": conform, "drift": drift}
    if drift:
        core.log("[%s] CONFORMANCE-DRIFT in %d/%d replayed schedules (%s); the model-checking results "
                 "are not claimed for this tree" % (pid, drift, len(scheds), tag))
    return outs


SYS_DEFAULTS = dict(GEN_DEFAULTS)
SYS_DEFAULTS.update({"QL": "8", "MaxFrame": "3", "LinkCap": "1", "DupBudget": "0", "InboxCap": "1",
                     "VaryAll": "FALSE", "Granular": "FALSE"})
del SYS_DEFAULTS["MaxSteps"]


def mc_system(res, wd, name, over, workers=12, timeout=900, invariants=("NoViolation", "NoPanic"),
              overrides=None, expect_violation=False, memqueue=False):
    """Exhaustive TLC run of System.tla with the given constants.  Returns (held, out)."""
    consts = dict(SYS_DEFAULTS)
    consts.update({k: str(v) for k, v in over.items()})
    cfgp = os.path.join(wd, "mc_%s.cfg" % name)
    write_cfg(cfgp, "Spec", consts, invariants=invariants, view="View")
    if overrides:
        with open(cfgp) as f:
            txt = f.read()
        txt = txt.replace("INVARIANTS", "".join("  %s <- %s\n" % kv for kv in overrides.items()) + "INVARIANTS", 1)
        with open(cfgp, "w") as f:
            f.write(txt)
    tracep = os.path.join(wd, "mc_%s_cex.json" % name)
    rc, out = core.tlc(os.path.join(core.SPEC, "MC_Sys.tla"), cfgp, os.path.join(wd, "md_mc_" + name),
                       workers=workers, timeout=timeout, xmx="10g", extra=["-dumpTrace", "json", tracep],
                       dfs=memqueue)
    gen, dist = core.parse_tlc_stats(out)
    violated = ("is violated" in out)
    if rc != 0 and not violated:
        raise core.ToolError("TLC failed on MC_Sys/%s rc=%d:\n%s" % (name, rc, out[-3000:]))
    if not violated and "Model checking completed" not in out:
        raise core.ToolError("TLC did not complete MC_Sys/%s:\n%s" % (name, out[-2000:]))
    res.add_model("System/" + name, gen, dist, {"constants": {k: consts[k] for k in
                  ("Peers", "Window", "Sparse", "PredDefault", "MaxFrame", "LinkCap", "InboxCap", "DesyncInterval")},
                  "violated": violated, "exhaustive": True, "overrides": overrides or {},
                  "expected_violation": expect_violation})
    if expect_violation:
        if not violated:
            raise core.ToolError("regression model run %s no longer finds its documented counterexample" % name)
        return True, None
    if violated:
        return False, cex_schedule(tracep, consts)
    return True, None


def cex_schedule(tracep, consts):
    """Turn TLC's JSON counterexample (states carry lastLine) into a harness schedule."""
    try:
        with open(tracep) as f:
            tr = json.load(f)
    except (OSError, ValueError):
        return None
    steps = []
    if isinstance(tr, dict) and "counterexample" in tr:      # TLC 1.8: {"counterexample": {"state": [[i, vars]...]}}
        tr = tr["counterexample"]
    for st in tr.get("state", tr if isinstance(tr, list) else []):
        v = st[1] if isinstance(st, list) else st
        ln = v.get("lastLine") if isinstance(v, dict) else None
        if not ln or ln.get("a") in (None, "init"):
            continue
        a = ln["a"]
        if a == "tick":
            st = {"a": "tick", "p": ln["p"], "in": ln["in"]}
            if "wait" in ln:
                st["wait"] = ln["wait"]
                st["arr"] = ln.get("arr", [])
            steps.append(st)
        elif a in ("poll", "ev", "kill"):
            steps.append({"a": a, "p": ln["p"]})
        elif a in ("dlv", "drop", "dup"):
            steps.append({"a": a, "from": ln["from"], "to": ln["to"], "k": ln["k"]})
        elif a == "clk":
            steps.append({"a": "clk", "d": ln["d"]})
        elif a == "disc":
            steps.append({"a": "disc", "p": ln["p"], "h": ln["h"]})
        elif a == "dly":
            steps.append({"a": "dly", "p": ln["p"], "h": ln["h"], "d": ln["d"]})
    pre = [{"a": "sync"}] if consts.get("PreSynced") == "TRUE" else []
    return {"cfg": scenario_of(consts), "steps": pre + steps, "linkcap": int(consts["LinkCap"])}


def confirm_on_impl(res, pid, wd, tag, sched, props, cls=None):
    """Replay a model counterexample on the real sessions; a violation there is a VIOLATION."""
    if sched is None:
        raise core.ToolError("model violation without a usable counterexample (%s)" % tag)
    path = os.path.join(wd, "cex_%s.ndjson" % tag)
    core.drive([sched], path, detail=2)
    r = core.validate_trace(path, os.path.join(wd, "mdo_cex_" + tag))
    res.traces += 1
    hit = False
    for v in r["viol"]:
        run, prop, n, code, det = v[0], v[1], v[2], v[3], v[4]
        if prop in props or prop == "PANIC":
            hit = True
            replay = core.save_replay(pid, path, run, "cex_%s_s%d" % (tag, res.seed))
            res.violations.append({"prop": prop, "code": code, "line": n, "detail": det, "family": "mc:" + tag,
                                   "cls": cls or tag, "replay": replay})
            break
    if not hit:
        res.extra.setdefault("model_only_counterexamples", []).append(tag)
        core.log("[%s] model counterexample (%s) did not reproduce on the implementation: "
                 "the model deviates from the code" % (pid, tag))
    return hit


def mc_generic(res, wd, name, module, consts, invariants=(), props=(), workers=8, timeout=900,
               overrides=None, expect_violation=False):
    """Run a component model (module with its own Spec).  Returns (held, out).
    expect_violation: a regression/non-vacuity run that MUST find the documented counterexample."""
    cfgp = os.path.join(wd, "mc_%s.cfg" % name)
    lines = ["SPECIFICATION Spec", "CONSTANTS"]
    for k, v in consts.items():
        lines.append("  %s = %s" % (k, v))
    for k, v in (overrides or {}).items():
        lines.append("  %s <- %s" % (k, v))
    if invariants:
        lines.append("INVARIANTS " + " ".join(invariants))
    if props:
        lines.append("PROPERTIES " + " ".join(props))
    lines.append("CHECK_DEADLOCK FALSE")
    with open(cfgp, "w") as f:
        f.write("\n".join(lines) + "\n")
    rc, out = core.tlc(os.path.join(core.SPEC, module), cfgp, os.path.join(wd, "md_mc_" + name),
                       workers=workers, timeout=timeout, xmx="10g")
    gen, dist = core.parse_tlc_stats(out)
    violated = ("is violated" in out) or ("was violated" in out)
    if rc != 0 and not violated:
        raise core.ToolError("TLC failed on %s/%s rc=%d:\n%s" % (module, name, rc, out[-3000:]))
    if not violated and "Model checking completed" not in out:
        raise core.ToolError("TLC did not complete %s/%s:\n%s" % (module, name, out[-2000:]))
    res.add_model("%s/%s" % (module.replace(".tla", ""), name), gen, dist,
                  {"constants": consts, "overrides": overrides or {}, "violated": violated,
                   "expected_violation": expect_violation, "exhaustive": True,
                   "checked": list(invariants) + list(props)})
    if expect_violation and not violated:
        raise core.ToolError("regression model run %s no longer finds its documented counterexample "
                             "(vacuity guard)" % name)
    return (not violated), out


def fault_plans(wd, nlinks, m, k, delays, timeout=300):
    """TLC enumerates the bounded-exhaustive fault space (spec/FaultPlan.tla)."""
    import re
    cfgp = os.path.join(wd, "faultplan.cfg")
    with open(cfgp, "w") as f:
        f.write("CONSTANTS\n  NLinks = %d\n  M = %d\n  K = %d\n  Delays = {%s}\n" %
                (nlinks, m, k, ", ".join(str(d) for d in delays)))
    rc, out = core.tlc(os.path.join(core.SPEC, "FaultPlan.tla"), cfgp, os.path.join(wd, "md_fp"), timeout=timeout)
    plans = []
    for mm in re.finditer(r'<<"PLAN", "(.*)">>', out):
        plans.append(json.loads(mm.group(1).encode().decode("unicode_escape")))
    mm = re.search(r'<<"PLANS", (\d+)>>', out)
    if not mm or int(mm.group(1)) != len(plans):
        raise core.ToolError("fault plan enumeration failed: %s" % out[-1500:])
    return plans


def twin_compare(trace_a, trace_b, metadir):
    """TLC compares the player sessions' calls of two traces (spec/Trace_Twin.tla).
    Returns dict(diff: {peer: first differing call or 0}, calls: {peer: n})."""
    import re
    rc, out = core.tlc(os.path.join(core.SPEC, "Trace_Twin.tla"), os.path.join(core.SPEC, "Trace_Twin.cfg"),
                       metadir, env={"TRACE": trace_a, "TRACE2": trace_b}, timeout=600)
    m = re.search(r'<<"TWIN-RESULT", "(.*)">>', out)
    if not m:
        raise core.ToolError("Trace_Twin produced no result (rc=%d): %s" % (rc, out[-2000:]))
    return json.loads(m.group(1).encode().decode("unicode_escape"))


def schedule_of_trace(path, drop_peers=(), keep_cfg=None):
    """The schedule (cfg + steps) of a recorded trace; optionally without the steps of some peers.
    Deliveries are addressed by queue position (ids shift when peers are removed)."""
    with open(path) as f:
        lines = [json.loads(x) for x in f if x.strip()]
    cfg = keep_cfg or lines[0]["cfg"]
    steps = []
    for l in lines[1:]:
        a = l.get("a")
        if a in ("end", "cfg", "mark"):
            continue
        if a in ("dlv", "drop", "dup"):
            if l["from"] in drop_peers or l["to"] in drop_peers or not l.get("ok", True):
                continue
            steps.append({"a": a, "from": l["from"], "to": l["to"], "k": l["k"]})
        elif a == "clk":
            steps.append({"a": "clk", "d": l["d"]})
        elif "p" in l:
            if l["p"] in drop_peers or l.get("r") == "skip":
                continue
            s = {"a": a, "p": l["p"]}
            for k in ("in", "h", "d"):
                if k in l:
                    s[k] = l[k]
            steps.append(s)
    return {"cfg": cfg, "steps": steps}


def rep_compare(trace, metadir, timeout=900):
    """C17: TLC compares the R runs contained in one trace (spec/Trace_Rep.tla)."""
    import re
    rc, out = core.tlc(os.path.join(core.SPEC, "Trace_Rep.tla"), os.path.join(core.SPEC, "Trace_Rep.cfg"),
                       metadir, env={"TRACE": trace}, timeout=timeout, xmx="4g")
    m = re.search(r'<<"REP-RESULT", "(.*)">>', out)
    if not m:
        raise core.ToolError("Trace_Rep produced no result for %s (rc=%d): %s" % (trace, rc, out[-2000:]))
    return json.loads(m.group(1).encode().decode("unicode_escape"))


def validate_st(trace, metadir, timeout=600):
    """Conformance of SyncTest.tla: a detail-2 trace of one real SyncTestSession through Trace_ST."""
    import re
    rc, out = core.tlc(os.path.join(core.SPEC, "Trace_ST.tla"), os.path.join(core.SPEC, "Trace_ST.cfg"),
                       metadir, env={"TRACE": trace}, timeout=timeout, xmx="3g")
    m = re.search(r'<<"ST-RESULT", "(.*)">>', out)
    if not m or "ST-INCOMPLETE" in out:
        raise core.ToolError("Trace_ST produced no result for %s (rc=%d):\n%s" % (trace, rc, out[-2000:]))
    return json.loads(m.group(1).encode().decode("unicode_escape"))
