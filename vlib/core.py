"""Core plumbing for the ggrs verification checks: build, drive, TLC, evidence, verdicts."""
import json
import os
import re
import shutil
import subprocess
import sys
import time
from concurrent.futures import ThreadPoolExecutor

VERIF = os.path.dirname(os.path.dirname(os.path.abspath(__file__)))
HARNESS = os.path.join(VERIF, "harness")
SPEC = os.path.join(VERIF, "spec")
WORK = os.path.join(VERIF, "work")
EVID = os.path.join(VERIF, "evidence")
REPLAYS = os.path.join(VERIF, "replays")
REPO = os.environ.get("VERIF_REPO", "/repo")      # (only the seed sandbox of devtools/tools_seed_sandbox.sh overrides this)
BIN = os.environ.get("VERIF_BIN", os.path.join(HARNESS, "target", "debug"))   # (override: coverage builds only)

TLC_JAR = "/opt/veriftools/tla/tla2tools.jar"


class ToolError(Exception):
    pass


def log(*a):
    print(*a, file=sys.stderr, flush=True)


def sh(cmd, cwd=None, timeout=None, env=None, check=False):
    e = dict(os.environ)
    if env:
        e.update(env)
    p = subprocess.run(cmd, cwd=cwd, timeout=timeout, env=e, stdout=subprocess.PIPE,
                       stderr=subprocess.STDOUT, text=True, errors="replace")
    if check and p.returncode != 0:
        raise ToolError("command failed (%d): %s\n%s" % (p.returncode, " ".join(cmd), p.stdout[-4000:]))
    return p.returncode, p.stdout


_built = False


def build():
    """(Re)build the harness and, through its path dependency, /repo's current working tree."""
    global _built
    if _built:
        return
    lock = os.path.join(HARNESS, "Cargo.lock")
    if not os.path.exists(lock):
        shutil.copy(os.path.join(REPO, "Cargo.lock"), lock)
    t0 = time.time()
    env = {"CARGO_NET_OFFLINE": "true"}
    rc, out = sh(["cargo", "build", "--offline", "--bins"], cwd=HARNESS, timeout=1800, env=env)
    if rc != 0:
        # the lock file may be stale w.r.t. /repo: refresh once
        shutil.copy(os.path.join(REPO, "Cargo.lock"), lock)
        rc, out = sh(["cargo", "build", "--offline", "--bins"], cwd=HARNESS, timeout=1800, env=env)
    if rc != 0:
        raise ToolError("harness build failed:\n" + out[-6000:])
    log("[build] harness built in %.1fs" % (time.time() - t0))
    _built = True


def workdir(pid):
    d = os.path.join(WORK, pid)
    shutil.rmtree(d, ignore_errors=True)
    os.makedirs(d, exist_ok=True)
    return d


def drive(plans, out_path, detail=0, timeout=900):
    """Run the real sessions on a list of plans/schedules; returns the trace path."""
    plans_path = out_path + ".plans.json"
    with open(plans_path, "w") as f:
        json.dump(plans, f)
    arch = os.environ.get("VERIF_PLAN_ARCHIVE")     # development aid: keep every plan (coverage measurements)
    if arch:
        os.makedirs(arch, exist_ok=True)
        shutil.copy(plans_path, os.path.join(arch, "%s__%s" % (os.path.basename(os.path.dirname(out_path)),
                                                               os.path.basename(plans_path))))
    rc, out = sh([os.path.join(BIN, "drive"), plans_path, out_path, str(detail)], timeout=timeout)
    if rc != 0:
        raise ToolError("drive failed rc=%d: %s" % (rc, out[-2000:]))
    return out_path


def tlc(module, cfg, metadir, env=None, workers=1, xmx="2g", extra=None, timeout=900, dfs=False):
    """Run TLC; returns (rc, output)."""
    shutil.rmtree(metadir, ignore_errors=True)
    jopts = "-Xss1g -Xmx%s" % xmx
    if workers == 1:
        jopts += " -XX:ParallelGCThreads=2"
    if dfs:
        jopts += " -Dtlc2.tool.queue.IStateQueue=StateDeque"
    # the wrapper on PATH sets the class path with the CommunityModules
    cmd = ["tlc", "-workers", str(workers), "-metadir", metadir, "-cleanup", "-noGenerateSpecTE",
           "-config", cfg] + (extra or []) + [module]
    e = {"JAVA_TOOL_OPTIONS": jopts}
    if env:
        e.update(env)
    try:
        rc, out = sh(cmd, cwd=SPEC, timeout=timeout, env=e)
    except subprocess.TimeoutExpired:
        raise ToolError("TLC timed out after %ds on %s" % (timeout, module))
    finally:
        pass
    shutil.rmtree(metadir, ignore_errors=True)
    return rc, out


def parse_tlc_stats(out):
    """states generated / distinct from TLC's final line."""
    m = re.findall(r"(\d+) states generated, (\d+) distinct states found", out)
    if not m:
        return 0, 0
    g, d = m[-1]
    return int(g), int(d)


def validate_trace(trace, metadir, module="Trace_Obs", timeout=900):
    """Run the monitor specification over a trace of the real code.
    Returns dict(lines, viol, stats, states)."""
    rc, out = tlc(os.path.join(SPEC, module + ".tla"), os.path.join(SPEC, module + ".cfg"),
                  metadir, env={"TRACE": trace}, timeout=timeout)
    m = re.search(r'<<"OBS-RESULT", "(.*)">>', out)
    if not m:
        raise ToolError("monitor produced no result for %s (rc=%d):\n%s" % (trace, rc, out[-3000:]))
    payload = m.group(1).encode().decode("unicode_escape")
    res = json.loads(payload)
    gen, dist = parse_tlc_stats(out)
    res["states"] = dist
    res["transitions"] = gen
    if "OBS-INCOMPLETE" in out or rc != 0:
        raise ToolError("monitor did not consume the whole trace %s (rc=%d):\n%s" % (trace, rc, out[-3000:]))
    return res


def parallel(fn, items, n=8):
    with ThreadPoolExecutor(max_workers=n) as ex:
        return list(ex.map(fn, items))


def chunks(xs, n):
    return [xs[i:i + n] for i in range(0, len(xs), n)]


# ---------------------------------------------------------------------------------------------
# known findings
# ---------------------------------------------------------------------------------------------

def load_known():
    p = os.path.join(VERIF, "known_findings.json")
    if not os.path.exists(p):
        return {"findings": [], "fixed": []}
    with open(p) as f:
        return json.load(f)


def match_known(known, pid, viol):
    """viol: dict(prop, code, detail, family, cls).  A finding matches on property, violation
    code and (when given) the scenario class the violation occurred in."""
    for k in known.get("findings", []):
        if k["property"] != pid:
            continue
        if k.get("code") and k["code"] != viol.get("code"):
            continue
        if k.get("prop") and k["prop"] != viol.get("prop"):
            continue
        if k.get("class") and k["class"] != viol.get("cls"):
            continue
        return k
    return None


# ---------------------------------------------------------------------------------------------
# evidence and verdict
# ---------------------------------------------------------------------------------------------

class Result:
    def __init__(self, pid, tier, seed):
        self.pid = pid
        self.tier = tier
        self.seed = seed
        self.t0 = time.time()
        self.states = 0
        self.transitions = 0
        self.traces = 0
        self.evaluations = 0
        self.nontrivial = 0
        self.samples = []
        self.violations = []     # dicts
        self.known_hits = []
        self.models = []         # per-model records
        self.notes = []
        self.assumptions = []
        self.extra = {}
        self.rule = ""
        self.exhaustive = False

    def add_model(self, name, generated, distinct, detail=None):
        self.states += distinct
        self.transitions += generated
        rec = {"model": name, "states_generated": generated, "distinct_states": distinct}
        if detail:
            rec.update(detail)
        self.models.append(rec)

    def add_sample(self, s):
        if len(self.samples) < 6:
            self.samples.append(s)

    def finish(self, level="model_checking", write_evidence=True):
        known = load_known()
        new = []
        for v in self.violations:
            k = match_known(known, self.pid, v)
            if k:
                self.known_hits.append((k, v))
            else:
                new.append(v)
        printed = set()
        for k, v in self.known_hits:
            key = k.get("id", k.get("what"))
            if key in printed:
                continue
            printed.add(key)
            print("KNOWN-FINDING: property=%s %s" % (self.pid, k["what"]))
        cov = {
            "states": max(self.states, 0),
            "transitions": max(self.transitions, 0),
            "traces_validated_against_impl": self.traces,
            "samples": self.samples if self.samples else ["(none)"],
            "evaluations": self.evaluations,
            "distinct_nontrivial": self.nontrivial,
            "rule": self.rule,
            "models": self.models,
            "exhaustive": self.exhaustive,
            "known_findings_hit": sorted(printed),
        }
        cov.update(self.extra)
        ev = {
            "property_id": self.pid,
            "tier": self.tier,
            "seed": self.seed,
            "level": level,
            "coverage": cov,
            "assumptions": self.assumptions,
            "wall_s": round(time.time() - self.t0, 2),
            "violations": len(new),
        }
        if write_evidence:
            os.makedirs(EVID, exist_ok=True)
            with open(os.path.join(EVID, self.pid + ".json"), "w") as f:
                json.dump(ev, f, indent=1)
        for v in new[:10]:
            print("VIOLATION property=%s replay=%s" % (self.pid, v.get("replay", "-")))
            print("  detail: %s" % json.dumps({k: v[k] for k in v if k != "replay"})[:600])
        log("[%s] %s tier=%s seed=%d states=%d traces=%d evals=%d nontrivial=%d violations=%d known=%d wall=%.1fs" % (
            self.pid, "FAIL" if new else "ok", self.tier, self.seed, self.states, self.traces,
            self.evaluations, self.nontrivial, len(new), len(self.known_hits), time.time() - self.t0))
        return 1 if new else 0


def save_replay(pid, src_trace, run_index, tag):
    """Copy the run that exhibits a violation out of the (multi-run) trace file."""
    os.makedirs(os.path.join(REPLAYS, pid), exist_ok=True)
    dst = os.path.join(REPLAYS, pid, "%s.ndjson" % tag)
    run = 0
    with open(src_trace) as f, open(dst, "w") as o:
        for line in f:
            if line.startswith('{"a":"cfg"'):
                run += 1
            if run == run_index:
                o.write(line)
    return dst
