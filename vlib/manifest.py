"""Regenerates /verif/MANIFEST.json from the table below (python3 -m vlib.manifest)."""
import json
import os
import subprocess

from . import props

VERIF = os.path.dirname(os.path.dirname(os.path.abspath(__file__)))

TECH = "TLA+ specification + TLC (exhaustive model, simulated schedules replayed on the real code, trace validation of real executions)"

TEXT = {
    "C01": ("System.tla (InputQueue/SyncLayer/Protocol/P2P transcribed from the code, bound to it by Trace_Sys "
            "conformance) is explored exhaustively for 2 peers with the property monitor (Monitor.tla) as invariant; "
            "TLC-generated schedules and seeded random scenarios are executed on the real sessions and every line of "
            "every real trace is judged by the same monitor: last simulation of every confirmed frame = the owner's "
            "true (delay-shifted) input, and the game state after the newest final frame = the serial replay of the final "
            "inputs (hash chain recomputed by the monitor).",
            "DESIGN.md section 3 C01"),
    "C02": ("Request-list walker in TLA+ (save names the game's frame, load names an earlier frame whose cell holds "
            "the state of the current timeline, advances without gaps, final frame = current_frame, frame 0 saved "
            "before simulated) evaluated by TLC on exhaustive model runs and on every advance_frame call of real "
            "P2P and spectator sessions, including three-peer runs in which a gossiped earlier cut-off rolls a survivor back to "
            "its confirmed frame.", "DESIGN.md section 3 C02"),
    "C03": ("Status truthfulness (Confirmed = owner's truth and received; Predicted = predictor of newest received; "
            "Disconnected = default after cut-off; locals Confirmed) and finality of confirmed inputs / monotone "
            "confirmed_frame as TLA+ predicates over every AdvanceFrame request, model-checked and evaluated on real traces "
            "for both predictors.", "DESIGN.md section 3 C03"),
    "C04": ("Speculation bound (first simulation of f needs f - confirmed <= window; load depth <= window) and the "
            "lockstep contract (no save/load, no Predicted, stall leaves the frame) as TLA+ predicates; exhaustive for "
            "windows 0,1,2 in the model, evaluated on real starvation runs for windows 0..12.  The waiting API "
            "(advance_frame_with_wait / _timeout) is part of the model (P2P_AdvanceFrameWait, System.TickW with an arrival "
            "at either yield), of the TLC schedules replayed on real sessions and of random lockstep runs with "
            "Trace_Sys conformance.", "DESIGN.md section 3 C04"),
    "C05": ("MC_Link.tla (two endpoints built from Protocol.tla's operators, lossy/duplicating/reordering link, fair "
            "retransmission) is checked for stream integrity and for the liveness property NoWedge; the bounded-"
            "exhaustive fault space (every set of <=K faults on the first M packets, enumerated by TLC from "
            "FaultPlan.tla) and random burst outages are executed on real sessions under the virtual clock and the "
            "TLA+ monitor demands progress after the faults ended and no Disconnected event.", "DESIGN.md section 3 C05"),
    "C06": ("Spectator monitor in TLA+ (each frame handed to a spectator = owner-side truth / Disconnected beyond the "
            "host's cut-off, gapless from 0, never beyond the host's confirmed frame, catch-up count rule, "
            "SpectatorTooFarBehind iff the ring was overrun) evaluated by TLC on real host+spectator traces with "
            "pauses, lag, loss and host-side drops and on a systematic sweep of pause lengths across the 60-slot ring; "
            "exhaustive System.tla models of host+spectator (with drops) and two peers+spectator; twin runs "
            "with/without spectators compared by Trace_Twin.tla.",
            "DESIGN.md section 3 C06"),
    "C07": ("Timing predicates over the virtual clock (NetworkInterrupted / Disconnected neither early nor late, once) "
            "and final-timeline predicates (real inputs up to the cut-off, default+Disconnected after it) evaluated by "
            "TLC on real two-peer traces with kills at random frames, packets in flight, explicit disconnect_player, "
            "rollback and lockstep, spectators, explicitly disconnected spectators; Disconnected is final and the "
            "cut-off never rises after the drop; exhaustive models with a dying peer and with a stepped clock "
            "(interruption / time-out order).", "DESIGN.md section 3 C07"),
    "C09": ("No DesyncDetected in any behaviour of the model (exhaustive, desync interval 1-2) nor in any real trace of a "
            "deterministic game (intervals 1..12); a deliberately diverging game is detected by every peer within 3 "
            "intervals with the checksums the games really saved (TLA+ predicates over the logged events).",
            "DESIGN.md section 3 C09"),
    "C10": ("Three/four-peer behaviours with a dying peer: TLC-simulated behaviours of System.tla replayed on real "
            "sessions (Trace_Sys conformance) and random runs; the TLA+ monitor demands no panic, coherent survivor "
            "timelines and one common cut-off.  The genuine defect of the pinned library in the class 'survivors hold "
            "different amounts of the dropped player's input' is a known finding matched by a monitor-computed history "
            "class; violations outside that class are reported (equal-view families - reliable FIFO schedules and "
            "kill + explicit disconnect + gossip runs - stay strict).", "DESIGN.md section 3 C10"),
    "C11": ("Owner-side truth is defined by the documented delay semantics in TLA+ (Props.tla Submit/SetDelay); System.tla "
            "with run-time set_input_delay is explored exhaustively (reliable FIFO network, delays {0,1,2}, 1-2 local "
            "players) with the monitor as invariant, two regression runs with the pinned pre-fix behaviour must fail; TLC "
            "schedules and random delay sequences 0..6 are executed on real sessions and judged by the monitor (owner, "
            "remotes and spectators use identical inputs, nothing stranded).", "DESIGN.md section 3 C11"),
    "C08": ("Which payloads are 'not a valid encoding' is decided by Codec.tla; every byte string up to 2 bytes (thorough: "
            "3) goes through the real decode and TLC validates each record against SpecDecode (no panic, bounded "
            "allocation); forged packets of all listed kinds, derived from genuine ones, are injected at random points "
            "of real runs (handshake, running, after a disconnect) and the TLA+ monitor demands delivered inputs = "
            "owner-side truth, intact event automata and no panic; packets of every kind with a foreign magic number "
            "arrive during silences and after a death while the exact timing predicates must hold as if they did not "
            "exist (connection state unchanged); Trace_Twin.tla compares with the unforged twin; the datagram layer "
            "(UdpNonBlockingSocket on loopback) receives raw datagrams - truncations, trailing bytes, marker values at every "
            "position, unknown variants, over-long ones - and TLC judges what it hands out against the grammar Wire.tla.",
            "DESIGN.md section 3 C08"),
    "C12": ("MC_Handshake.tla (Protocol.tla operators, loss/dup/reorder/stray replies): Running iff 5 matched round "
            "trips, event word well formed, liveness; on real traces (where the number of round trips is the one the "
            "Synchronizing events announce) the TLA+ monitor runs a per-address event automaton, "
            "counts matched request/reply round trips from the packets, relates Running/NotSynchronized to them, times "
            "NetworkInterrupted/Disconnected against the virtual clock (silences notify/timeout -220..+150 ms), "
            "bounds the event queue in never-drained sessions and forbids interruptions for poll-only pairs; an "
            "exhaustive System.tla model with a stepped clock and packet drops has the same predicates as invariant.",
            "DESIGN.md section 3 C12"),
    "C14": ("Codec.tla transcribes the codec; MC_Codec checks RoundTrip/Total/EncodeValid exhaustively on small alphabets; "
            "the real codec is run on every decoder input up to 2 bytes (thorough: 3) and on the small exhaustive "
            "(reference, inputs) space, and TLC validates every record against SpecDecode / SpecEncode; random large "
            "inputs (to 65535 bytes, long runs) round-trip; peak allocation is measured. Edge of the technique: the "
            "specification supplies oracle and exhaustive small space, long inputs are sampled.", "DESIGN.md section 3 C14"),
    "C13": ("SyncTest.tla (sync layer + checksum history + compare-then-roll-back) is explored exhaustively by "
            "MC_SyncTest with the monitor as invariant (deterministic games never flagged; a deviation on the k-th "
            "simulation, k>=2, reported within check_distance+2 calls naming the first affected frame; request-list "
            "contract); real SyncTestSessions over all (check distance, k) pairs - the deviation either carried into later "
            "frames or transient (only the checksum of the next save) - and random configurations are judged by "
            "the same monitor.  The deviation on the first simulation only is a known finding reproduced by the model.",
            "DESIGN.md section 3 C13"),
    "C16": ("Builder.tla is the reference validity predicate (documented rules as a state machine); TLC enumerates every "
            "call sequence up to 3 (thorough 4) calls over small domains and each (configuration, next call) is replayed "
            "on the real SessionBuilder, returned sessions are exercised under catch_unwind; run-time misuse calls carry "
            "their documented result as expectation judged by the TLA+ monitor, Trace_Twin.tla shows the behaviour is "
            "unchanged; SyncTestSession misuse is replayed through SyncTest.tla.", "DESIGN.md section 3 C16"),
    "C17": ("The specification is deterministic in (API calls, packets per link, clock) and iterates handles/endpoints in "
            "ascending order; every plan and TLC-generated schedule is executed several times in one process (fresh hash "
            "states, nonces, magics) and Trace_Rep.tla demands identical request lists, states and per-address event "
            "sequences across the repetitions, and identical results of the public handle getters; Trace_Sys conformance of the same schedules shows each run is THE "
            "behaviour of the specification.", "DESIGN.md section 3 C17"),
    "C18": ("Buffer bounds as TLA+ predicates over the sizes read through the hook after every call (Monitor.tla BufViol), "
            "evaluated by TLC on long real runs (3000-20000 frames) of all topologies, all-local sessions, never-drained "
            "sessions and dying spectators; the link model's history bound is an invariant of MC_Link.",
            "DESIGN.md section 3 C18"),
    "C15": ("The recommendation gate is a state-machine predicate on every drained WaitRecommendation; TimeSync.tla "
            "transcribes the window arithmetic, F32.tla gives the code's f32 average as an exact integer function and TLC demands equality with records of the real window; network_stats results of random runs are compared with the specification (Trace_Sys); the closed loop "
            "(two peers, constant lead k in -7..7, latency 0..100 ms, fps 30/60) is executed on real sessions under the "
            "virtual clock and TLA+ predicates compare frames_ahead with the real lead, the two peers' values with each "
            "other, ping with 2L and the local/remote frames-behind figures.  Numeric accuracy is at the edge of the "
            "technique: 'about' is formalised as +-2 frames / two ticks on the explored grid.", "DESIGN.md section 3 C15"),
}

NOTE = ("Trusted: TLC 1.8.0 + CommunityModules, the harness projection (world.rs) and virtual clock shim, the "
        "hook snapshots under --cfg ggrs_verif. Exhaustive results hold for the small constants recorded in the "
        "evidence; long histories, 3-4 peers and large windows are covered by validated real executions, not by "
        "exhaustion. A panic of the code under test is reported as a violation of the property being checked.")

NA_REASON = "check under construction (not yet registered)"

ALL = ["C%02d" % i for i in range(1, 19)]


def build():
    commits = subprocess.run(["git", "-C", "/repo", "log", "--format=%H %s"], stdout=subprocess.PIPE,
                             text=True).stdout.splitlines()
    hooks = [c.split()[0] for c in commits if c.split(" ", 1)[1].startswith("verif hook")]
    checks = []
    for pid in ALL:
        if pid in props.CHECKS and pid in TEXT:
            checks.append({
                "property_id": pid,
                "quick_cmd": "./check %s --tier quick" % pid,
                "thorough_cmd": "./check %s --tier thorough" % pid,
                "evidence_file": "/verif/evidence/%s.json" % pid,
                "replay_cmd_template": "./check %s --replay {path}" % pid,
                "engine": "tla-trifecta",
                "level_claimed": {"category": "model_checking", "text": TEXT[pid][0], "design_ref": TEXT[pid][1]},
                "level_note": NOTE,
                "technique": TECH,
            })
    claimed = {c["property_id"] for c in checks}
    na = [{"property_id": p, "reason": NA.get(p, NA_REASON)} for p in ALL if p not in claimed]
    m = {
        "version": 1,
        "setup_cmd": "./check setup",
        "hooks": {
            "guard": "--cfg ggrs_verif",
            "enable": "harness/.cargo/config.toml sets rustflags --cfg ggrs_verif; the harness crate has a path "
                      "dependency on /repo, so every check rebuilds /repo's working tree with the hooks on",
            "baseline_off_cmd": "cd /repo && cargo test --workspace --no-fail-fast --offline",
            "source_commits": hooks,
            "add_only": True,
        },
        "engines": [{
            "name": "tla-trifecta",
            "path": "/verif/check",
            "serves_properties": sorted(claimed),
            "kind_free_text": "explicit TLA+ specification (spec/*.tla) checked by TLC; bound to the code by "
                              "trace validation (Trace_Obs, Trace_Sys) and by replaying TLC-generated schedules "
                              "on the real sessions (harness/)",
        }],
        "checks": checks,
        "not_applicable": na,
        "notes": "Model-based verification with an explicit TLA+ specification; see DESIGN.md.",
    }
    with open(os.path.join(VERIF, "MANIFEST.json"), "w") as f:
        json.dump(m, f, indent=1)
    return m


NA = {}

if __name__ == "__main__":
    m = build()
    print("MANIFEST: %d checks, %d not_applicable" % (len(m["checks"]), len(m["not_applicable"])))
