//! Seeded random driver: executes a *plan* (scenario + fault/timing parameters) on real sessions
//! and returns the trace.  All decisions are schedule steps, so every trace can be replayed.
use rand::rngs::StdRng;
use rand::{Rng, SeedableRng};
use serde_json::{json, Value};
use std::cmp::Reverse;
use std::collections::BinaryHeap;

use crate::world::World;
use crate::{Addr, HCfg};

fn pu(c: &Value, k: &str, d: u64) -> u64 {
    c.get(k).and_then(|v| v.as_u64()).unwrap_or(d)
}
fn pf(c: &Value, k: &str, d: f64) -> f64 {
    c.get(k).and_then(|v| v.as_f64()).unwrap_or(d)
}
fn pb(c: &Value, k: &str, d: bool) -> bool {
    c.get(k).and_then(|v| v.as_bool()).unwrap_or(d)
}

struct Outage {
    from: Addr,
    to: Addr,
    start: u64,
    end: u64,
}

/// Run a plan; `emit` receives every trace line (the first is the `cfg` line).
pub fn run_plan<T: HCfg>(plan: &Value, detail: u8, emit: &mut dyn FnMut(&Value)) -> Result<(), String> {
    let seed = pu(plan, "seed", 1);
    let mut rng = StdRng::seed_from_u64(seed);
    let cfg = plan.get("cfg").ok_or("plan.cfg missing")?;
    let mut w = World::<T>::new(cfg, detail)?;
    let mut head = serde_json::Map::new();
    head.insert("a".into(), json!("cfg"));
    head.insert("cfg".into(), w.cfg.clone());
    head.insert("plan".into(), plan.clone());
    emit(&Value::Object(head));

    let npeers = w.peers.len();
    let frames = pu(plan, "frames", 300) as i32;
    let max_ms = pu(plan, "max_ms", 600_000);
    let periods: Vec<u64> = plan
        .get("tick_ms")
        .and_then(|v| v.as_array())
        .map(|a| a.iter().map(|x| x.as_u64().unwrap_or(16)).collect())
        .unwrap_or_else(|| vec![16; npeers]);
    let jitter = pu(plan, "jitter", 0);
    let lat_lo = pu(plan, "lat_lo", 5);
    let lat_hi = pu(plan, "lat_hi", 40).max(lat_lo);
    let loss = pf(plan, "loss", 0.0);
    let dup = pf(plan, "dup", 0.0);
    let alphabet = pu(plan, "alphabet", 4).max(1);
    let change = pf(plan, "change", 0.3);
    let p_delay = pf(plan, "p_delay", 0.0);
    let max_delay = pu(plan, "max_delay", 4);
    let drain = pb(plan, "drain", true);
    let p_poll = pf(plan, "p_poll", 0.0);
    let p_pause = pf(plan, "p_pause", 0.0);
    let pause_ms = pu(plan, "pause_ms", 300);
    let p_stats = pf(plan, "p_stats", 0.0);
    // sessions only call poll_remote_clients (never advance): C12's "merely poll" scenario
    let poll_only = pb(plan, "poll_only", false);
    // C08: forged packets {"rate": p per tick, "kinds": [...], "payloads": [[bytes]...]}
    let forge = plan.get("forge").cloned().unwrap_or(Value::Null);
    let forge_rate = pf(&forge, "rate", 0.0);
    let forge_kinds: Vec<String> = forge
        .get("kinds")
        .and_then(|v| v.as_array())
        .map(|a| a.iter().map(|k| k.as_str().unwrap_or("").to_string()).collect())
        .unwrap_or_default();
    let forge_payloads: Vec<Value> = forge
        .get("payloads")
        .and_then(|v| v.as_array())
        .cloned()
        .unwrap_or_default();
    let mut forge_n = 0u64;
    // > 0: P2P sessions call advance_frame_with_wait_timeout(wait_ms) instead of advance_frame
    let wait_ms = pu(plan, "wait_ms", 0);
    let wait_default = plan.get("wait_default").and_then(|v| v.as_bool()).unwrap_or(false);
    // forge only into sessions that are Running (their magic filter is armed for every endpoint)
    let forge_after_sync = forge.get("after_sync").and_then(|v| v.as_bool()).unwrap_or(false);
    // optional fixed set of (claimed) source addresses
    let forge_from: Vec<usize> = forge
        .get("from")
        .and_then(|v| v.as_array())
        .map(|a| a.iter().filter_map(|x| x.as_u64().map(|x| x as usize)).collect())
        .unwrap_or_default();
    // C16: API misuse calls inserted at random points; each carries the documented result
    let p_misuse = pf(plan, "p_misuse", 0.0);
    let nplayers = pu(cfg, "players", 2) as usize;
    let settle_ms = pu(plan, "settle_ms", 0);
    // faults (loss, duplication, outages) stop at this time (ms after start); 0 = never.
    // After it the run continues for `after_ms` on a perfect network (C05's settle phase).
    let fault_until = pu(plan, "fault_until", 0);
    let after_ms = pu(plan, "after_ms", 1500);
    let mut marked = false;
    let start0 = 1_000_000u64;

    let mut outages: Vec<Outage> = plan
        .get("outages")
        .and_then(|v| v.as_array())
        .map(|a| {
            a.iter()
                .map(|o| Outage {
                    from: pu(o, "from", 0) as Addr,
                    to: pu(o, "to", 0) as Addr,
                    start: start0 + pu(o, "start", 0),
                    end: start0 + pu(o, "start", 0) + pu(o, "len", 0),
                })
                .collect()
        })
        .unwrap_or_default();
    // random outages: rate per second per link direction, length range
    let out_rate = pf(plan, "outage_rate", 0.0);
    let out_lo = pu(plan, "outage_lo", 50);
    let out_hi = pu(plan, "outage_hi", 400).max(out_lo);
    // kills: [{p, at_frame}] ; explicit disconnects [{p, h, at_frame}]
    let kills: Vec<(usize, i32)> = plan
        .get("kills")
        .and_then(|v| v.as_array())
        .map(|a| {
            a.iter()
                .map(|k| (pu(k, "p", 0) as usize, pu(k, "at_frame", 0) as i32))
                .collect()
        })
        .unwrap_or_default();
    let discs: Vec<(usize, usize, i32)> = plan
        .get("discs")
        .and_then(|v| v.as_array())
        .map(|a| {
            a.iter()
                .map(|k| {
                    (
                        pu(k, "p", 0) as usize,
                        pu(k, "h", 0) as usize,
                        pu(k, "at_frame", 0) as i32,
                    )
                })
                .collect()
        })
        .unwrap_or_default();
    // C05 fault plans (spec/FaultPlan.tla): [{link, phase, idx, kind, d}], links: [[from,to],..]
    let fp_links: Vec<(Addr, Addr)> = plan
        .get("links")
        .and_then(|v| v.as_array())
        .map(|a| {
            a.iter()
                .map(|l| (l[0].as_u64().unwrap_or(0) as Addr, l[1].as_u64().unwrap_or(0) as Addr))
                .collect()
        })
        .unwrap_or_default();
    let fault_plan: Vec<Value> = plan
        .get("fault_plan")
        .and_then(|v| v.as_array())
        .cloned()
        .unwrap_or_default();
    let mut cnt_all: std::collections::HashMap<(Addr, Addr), u64> = Default::default();
    let mut cnt_run: std::collections::HashMap<(Addr, Addr), u64> = Default::default();
    let mut faults_hit = 0u64;
    // C15: a peer skips `ticks` of its ticks once it has reached `at_frame` (it falls behind by that much)
    let holds: Vec<(usize, i32, u64)> = plan
        .get("holds")
        .and_then(|v| v.as_array())
        .map(|a| {
            a.iter()
                .map(|k| (pu(k, "p", 0) as usize, pu(k, "at_frame", 0) as i32, pu(k, "ticks", 0)))
                .collect()
        })
        .unwrap_or_default();
    // frame-keyed link cuts [{from, to, at_frame, len}]: once peer `from` has reached `at_frame` the link
    // from -> to loses everything for `len` ms (default: for the rest of the run)
    let cuts: Vec<(usize, usize, i32, u64)> = plan
        .get("cuts")
        .and_then(|v| v.as_array())
        .map(|a| {
            a.iter()
                .map(|k| {
                    (
                        pu(k, "from", 0) as usize,
                        pu(k, "to", 0) as usize,
                        pu(k, "at_frame", 0) as i32,
                        pu(k, "len", 100_000_000),
                    )
                })
                .collect()
        })
        .unwrap_or_default();
    let mut cuts_done = vec![false; cuts.len()];
    let mut holds_done = vec![false; holds.len()];
    let mut kills_done = vec![false; kills.len()];
    let mut discs_done = vec![false; discs.len()];

    let mut next_tick: Vec<u64> = (0..npeers)
        .map(|i| start0 + (i as u64 * 3) % periods[i].max(1))
        .collect();
    let mut cur_input: Vec<u8> = vec![0; 16];
    let mut heap: BinaryHeap<Reverse<(u64, u64, Addr, Addr, u64)>> = BinaryHeap::new();
    let mut hseq = 0u64;
    let mut last_out_roll = start0;
    let mut finished_at: Option<u64> = None;

    let cur_of = |w: &World<T>, p: usize| -> i32 {
        match &w.peers[p].sess {
            crate::world::Sess::P2P(s) => s.current_frame(),
            crate::world::Sess::Spec(s) => s.current_frame(),
            crate::world::Sess::Sync(s) => s.current_frame(),
        }
    };

    loop {
        let now = w.now();
        if now - start0 > max_ms {
            break;
        }
        let faults_on = fault_until == 0 || now < start0 + fault_until;
        if !faults_on && !marked {
            marked = true;
            emit(&json!({"a":"mark","what":"faults_over","t":now,"min_progress":pu(plan,"min_progress",20)}));
        }
        if marked && now >= start0 + fault_until + after_ms {
            break;
        }
        // finished?
        let done = (0..npeers)
            .filter(|&p| w.peers[p].alive && !w.peers[p].crashed && !w.peers[p].is_spec)
            .all(|p| cur_of(&w, p) >= frames);
        let any = (0..npeers).any(|p| w.peers[p].alive && !w.peers[p].crashed && !w.peers[p].is_spec);
        if (done && fault_until == 0) || !any {
            match finished_at {
                None => finished_at = Some(now),
                Some(t) if now >= t + settle_ms => break,
                _ => {}
            }
        }
        // random outages, rolled once per 100 ms
        if out_rate > 0.0 && faults_on && now >= last_out_roll + 100 {
            last_out_roll = now;
            for a in 0..npeers {
                for b in 0..npeers {
                    if a != b && rng.gen::<f64>() < out_rate / 10.0 {
                        let len = rng.gen_range(out_lo..=out_hi);
                        outages.push(Outage {
                            from: a as Addr,
                            to: b as Addr,
                            start: now,
                            end: now + len,
                        });
                        if pb(plan, "outage_both", false) {
                            outages.push(Outage {
                                from: b as Addr,
                                to: a as Addr,
                                start: now,
                                end: now + len,
                            });
                        }
                    }
                }
            }
            outages.retain(|o| o.end > now);
        }

        // next event time
        let mut tnext = u64::MAX;
        for p in 0..npeers {
            if w.peers[p].alive && !w.peers[p].crashed {
                tnext = tnext.min(next_tick[p]);
            }
        }
        if let Some(Reverse((t, ..))) = heap.peek() {
            tnext = tnext.min(*t);
        }
        if tnext == u64::MAX {
            break;
        }
        if tnext > now {
            emit(&w.step(&json!({"a":"clk","d":tnext - now})));
        }
        let now = w.now();
        // due deliveries
        while let Some(Reverse((t, _, from, to, id))) = heap.peek().cloned() {
            if t > now {
                break;
            }
            heap.pop();
            if w.net.borrow().index_of(from, to, id).is_some() {
                emit(&w.step(&json!({"a":"dlv","from":from,"to":to,"id":id})));
            }
        }
        // due peer ticks
        for p in 0..npeers {
            if !(w.peers[p].alive && !w.peers[p].crashed) || next_tick[p] > now {
                continue;
            }
            let cur = cur_of(&w, p);
            for (i, (cf, ct, at, len)) in cuts.iter().enumerate() {
                if !cuts_done[i] && *cf == p && cur >= *at {
                    cuts_done[i] = true;
                    outages.push(Outage {
                        from: *cf as Addr,
                        to: *ct as Addr,
                        start: now,
                        end: now.saturating_add(*len),
                    });
                }
            }
            // kills / explicit disconnects keyed on this peer's frame
            for (i, (kp, at)) in kills.iter().enumerate() {
                if !kills_done[i] && *kp == p && cur >= *at {
                    kills_done[i] = true;
                    emit(&w.step(&json!({"a":"kill","p":p})));
                }
            }
            if !w.peers[p].alive {
                continue;
            }
            for (i, (dp, h, at)) in discs.iter().enumerate() {
                if !discs_done[i] && *dp == p && cur >= *at {
                    discs_done[i] = true;
                    // the same (peer, handle) listed again: the player is already disconnected by then
                    let again = discs.iter().take(i).any(|(p2, h2, _)| *p2 == *dp && *h2 == *h);
                    if again {
                        emit(&w.step(&json!({"a":"disc","p":p,"h":h,"expect":["E:InvalidRequest"]})));
                    } else {
                        emit(&w.step(&json!({"a":"disc","p":p,"h":h})));
                    }
                }
            }
            let mut steps: Vec<Value> = Vec::new();
            let armed = !forge_after_sync
                || match &w.peers[p].sess {
                    crate::world::Sess::P2P(s) => s.current_state() == ggrs::SessionState::Running,
                    crate::world::Sess::Spec(s) => s.current_state() == ggrs::SessionState::Running,
                    crate::world::Sess::Sync(_) => false,
                };
            if forge_rate > 0.0 && !forge_kinds.is_empty() && npeers > 1 && armed && rng.gen::<f64>() < forge_rate {
                let mut from = if forge_from.is_empty() {
                    rng.gen_range(0..npeers)
                } else {
                    forge_from[rng.gen_range(0..forge_from.len())]
                };
                if from == p {
                    from = (from + 1) % npeers;
                }
                let kind = forge_kinds[rng.gen_range(0..forge_kinds.len())].clone();
                let mut st = json!({"a":"forge","from":from,"to":p,"kind":kind,"salt":rng.gen_range(0..100000u64)});
                if kind == "badPayload" && !forge_payloads.is_empty() {
                    st["payload"] = forge_payloads[(forge_n as usize) % forge_payloads.len()].clone();
                }
                forge_n += 1;
                steps.push(st);
            }
            if p_misuse > 0.0
                && !w.peers[p].is_spec
                && !matches!(w.peers[p].sess, crate::world::Sess::Sync(_))
                && rng.gen::<f64>() < p_misuse
            {
                let locals = w.peers[p].locals.clone();
                let nonlocal: Vec<usize> = (0..nplayers + 2).filter(|h| !locals.contains(h)).collect();
                let inv = json!(["E:InvalidRequest"]);
                match rng.gen_range(0..7) {
                    0 => {
                        // input for a handle that is not local (remote, spectator or unknown)
                        let h = nonlocal[rng.gen_range(0..nonlocal.len())];
                        steps.push(json!({"a":"addonly","p":p,"in":[[h, 1]],"expect_add":["E:InvalidRequest"]}));
                    }
                    1 => steps.push(json!({"a":"disc","p":p,"h":locals[rng.gen_range(0..locals.len())],"expect":inv})),
                    2 => steps.push(json!({"a":"disc","p":p,"h":97,"expect":inv})),
                    3 => {
                        let h = nonlocal[rng.gen_range(0..nonlocal.len())];
                        steps.push(json!({"a":"dly","p":p,"h":h,"d":rng.gen_range(0..4),"expect":inv}));
                    }
                    4 => steps.push(json!({"a":"stats","p":p,"h":locals[rng.gen_range(0..locals.len())],"expect":inv})),
                    5 => steps.push(json!({"a":"stats","p":p,"h":98,"expect":inv})),
                    _ => {
                        // advance_frame with the input of one local player missing (or before
                        // synchronisation: NotSynchronized is checked first)
                        let ins: Vec<Value> = locals.iter().skip(1).map(|h| json!([h, cur_input[*h]])).collect();
                        steps.push(json!({"a":"tick","p":p,"in":ins,
                                          "expect":["E:InvalidRequest","E:NotSynchronized"]}));
                    }
                }
            }
            if poll_only {
                steps.push(json!({"a":"poll","p":p}));
            } else if !w.peers[p].is_spec {
                if p_delay > 0.0 && rng.gen::<f64>() < p_delay && !w.peers[p].locals.is_empty() {
                    let hs = &w.peers[p].locals;
                    let h = hs[rng.gen_range(0..hs.len())];
                    let d = rng.gen_range(0..=max_delay);
                    steps.push(json!({"a":"dly","p":p,"h":h,"d":d}));
                }
                let mut ins = Vec::new();
                for &h in &w.peers[p].locals {
                    if rng.gen::<f64>() < change {
                        cur_input[h] = rng.gen_range(0..alphabet) as u8;
                    }
                    ins.push(json!([h, cur_input[h]]));
                }
                if p_poll > 0.0 && rng.gen::<f64>() < p_poll {
                    steps.push(json!({"a":"poll","p":p}));
                }
                let is_sync = matches!(w.peers[p].sess, crate::world::Sess::Sync(_));
                if is_sync && p_misuse > 0.0 && rng.gen::<f64>() < p_misuse {
                    // SyncTestSession misuse: an unknown handle, or advance_frame with one input missing
                    let np = w.peers[p].locals.len();
                    match rng.gen_range(0..3) {
                        0 => steps.push(json!({"a":"addonly","p":p,"in":[[np + rng.gen_range(0..3), 1]],
                                               "expect_add":["E:InvalidRequest"]})),
                        1 => {
                            let part: Vec<Value> = ins.iter().skip(1).cloned().collect();
                            steps.push(json!({"a":"tick","p":p,"in":part}));
                        }
                        _ => steps.push(json!({"a":"tick","p":p,"in":[]})),
                    }
                }
                if wait_ms > 0 {
                    // advance_frame_with_wait_timeout: the packets due at this peer within the wait
                    // arrive while the call spins
                    let t0 = w.now();
                    let all: Vec<_> = heap.drain().collect();
                    let mut arr: Vec<Value> = Vec::new();
                    for Reverse((t, sq, from, to, id)) in all {
                        if to == p as Addr && t > t0 && t <= t0 + wait_ms {
                            arr.push(json!([t - t0, from, id, true]));
                        } else {
                            heap.push(Reverse((t, sq, from, to, id)));
                        }
                    }
                    steps.push(json!({"a":"tick","p":p,"in":ins,"wait":wait_ms,"arr":arr,"wait_default":wait_default}));
                } else {
                    steps.push(json!({"a":"tick","p":p,"in":ins}));
                }
            } else {
                steps.push(json!({"a":"tick","p":p}));
            }
            if p_stats > 0.0 && rng.gen::<f64>() < p_stats {
                // a remote player's handle, or (one time in three) the handle of one of this host's spectators
                let np = pu(cfg, "players", 2) as usize;
                let nspec_here = cfg["peers"]
                    .as_array()
                    .map(|a| a.iter().filter(|x| x["kind"] == "spec" && x["host"].as_u64() == Some(p as u64)).count())
                    .unwrap_or(0);
                let h = if w.peers[p].is_spec {
                    0
                } else if nspec_here > 0 && rng.gen_range(0..3) == 0 {
                    np + rng.gen_range(0..nspec_here)
                } else {
                    (w.peers[p].locals[0] + 1) % np
                };
                steps.push(json!({"a":"stats","p":p,"h":h}));
            }
            if drain {
                steps.push(json!({"a":"ev","p":p}));
            }
            for st in steps {
                let l = w.step(&st);
                emit(&l);
                // packets that did not arrive during a wait (the call returned earlier) are still in flight
                if let Some(planned) = st.get("arr").and_then(|v| v.as_array()) {
                    let done: Vec<u64> = l["arr"]
                        .as_array()
                        .map(|a| a.iter().filter_map(|x| x[3].as_u64()).collect())
                        .unwrap_or_default();
                    for x in planned {
                        let id = x[2].as_u64().unwrap_or(0);
                        if !done.contains(&id) {
                            hseq += 1;
                            heap.push(Reverse((w.now(), hseq, x[1].as_u64().unwrap_or(0) as Addr, p as Addr, id)));
                        }
                    }
                }
                // fate of the packets this step sent
                let mut sent: Vec<(u64, Addr, Addr, bool)> =
                    std::mem::take(&mut w.net.borrow_mut().tx_ids);
                // the order in which a session serves its endpoints follows its hash maps; decide
                // the fates in (destination, send order) so that a plan is reproducible
                sent.sort_by_key(|(id, _from, to, _)| (*to, *id));
                for (id, from, to, is_input) in sent {
                    // planned faults
                    let ia = {
                        let c = cnt_all.entry((from, to)).or_insert(0);
                        *c += 1;
                        *c
                    };
                    let ir = if is_input {
                        let c = cnt_run.entry((from, to)).or_insert(0);
                        *c += 1;
                        *c
                    } else {
                        0
                    };
                    let mut planned: Option<(String, u64)> = None;
                    for f in &fault_plan {
                        let li = f["link"].as_u64().unwrap_or(0) as usize;
                        if li >= fp_links.len() || fp_links[li] != (from, to) {
                            continue;
                        }
                        let idx = f["idx"].as_u64().unwrap_or(0);
                        let hit = match f["phase"].as_str().unwrap_or("") {
                            "sync" => idx == ia,
                            "run" => is_input && idx == ir,
                            _ => false,
                        };
                        if hit {
                            planned = Some((
                                f["kind"].as_str().unwrap_or("").to_string(),
                                f["d"].as_u64().unwrap_or(0),
                            ));
                        }
                    }
                    if let Some((kind, d)) = planned {
                        faults_hit += 1;
                        match kind.as_str() {
                            "drop" => {
                                emit(&w.step(&json!({"a":"drop","from":from,"to":to,"id":id})));
                                continue;
                            }
                            "dup" => {
                                let lat = rng.gen_range(lat_lo..=lat_hi);
                                hseq += 1;
                                heap.push(Reverse((now + lat, hseq, from, to, id)));
                                let l = w.step(&json!({"a":"dup","from":from,"to":to,"id":id}));
                                if let Some(nid) = l["id"].as_u64() {
                                    hseq += 1;
                                    heap.push(Reverse((now + lat + 1, hseq, from, to, nid)));
                                }
                                emit(&l);
                                continue;
                            }
                            _ => {
                                let lat = rng.gen_range(lat_lo..=lat_hi) + d;
                                hseq += 1;
                                heap.push(Reverse((now + lat, hseq, from, to, id)));
                                continue;
                            }
                        }
                    }
                    let in_outage = faults_on
                        && outages
                            .iter()
                            .any(|o| o.from == from && o.to == to && o.start <= now && now < o.end);
                    if in_outage || (faults_on && rng.gen::<f64>() < loss) {
                        emit(&w.step(&json!({"a":"drop","from":from,"to":to,"id":id})));
                        continue;
                    }
                    let lat = rng.gen_range(lat_lo..=lat_hi);
                    hseq += 1;
                    heap.push(Reverse((now + lat, hseq, from, to, id)));
                    if faults_on && rng.gen::<f64>() < dup {
                        let l = w.step(&json!({"a":"dup","from":from,"to":to,"id":id}));
                        if let Some(nid) = l["id"].as_u64() {
                            let lat2 = rng.gen_range(lat_lo..=lat_hi);
                            hseq += 1;
                            heap.push(Reverse((now + lat2, hseq, from, to, nid)));
                        }
                        emit(&l);
                    }
                }
            }
            let j = if jitter > 0 { rng.gen_range(0..=jitter) } else { 0 };
            next_tick[p] = now + periods[p] + j;
            for (i, (hp, at, ticks)) in holds.iter().enumerate() {
                if !holds_done[i] && *hp == p && cur_of(&w, p) >= *at {
                    holds_done[i] = true;
                    next_tick[p] += ticks * periods[p];
                }
            }
            if p_pause > 0.0 && rng.gen::<f64>() < p_pause {
                next_tick[p] += rng.gen_range(0..=pause_ms);
            }
        }
    }
    emit(&json!({"a":"end","t":w.now(),"faults_hit":faults_hit,
                 "silent_spectator_check": pb(plan, "silent_spectator_check", false),
                 "after_drop_progress": pu(plan, "after_drop_progress", 0)}));
    Ok(())
}

/// Re-execute the steps of a recorded trace / a schedule (lines with results are fine: only the
/// step fields are read).  Extra schedule features used by TLC-generated schedules:
///  * step `{"a":"sync"}`: run the handshake to completion (polls + FIFO deliveries, each logged
///    as its own step) and leave the network empty;
///  * `linkcap` (in the schedule object): per-link in-flight capacity, the oldest packet is
///    dropped on overflow (logged as explicit `drop` steps), as System.tla's Transmit does.
pub fn run_schedule<T: HCfg>(
    cfg: &Value,
    steps: &[Value],
    detail: u8,
    linkcap: Option<usize>,
    emit: &mut dyn FnMut(&Value),
) -> Result<(), String> {
    let mut w = World::<T>::new(cfg, detail)?;
    emit(&json!({"a":"cfg","cfg":w.cfg.clone()}));
    let n = w.peers.len();
    let enforce_cap = |w: &mut World<T>, emit: &mut dyn FnMut(&Value)| {
        if let Some(cap) = linkcap {
            for a in 0..n as Addr {
                for b in 0..n as Addr {
                    while a != b && w.net.borrow().in_flight(a, b) > cap {
                        emit(&w.step(&json!({"a":"drop","from":a,"to":b,"k":0})));
                    }
                }
            }
        }
    };
    for s in steps {
        let a = s["a"].as_str().unwrap_or("");
        if a == "end" || a == "cfg" || a == "nop" {
            continue;
        }
        if a == "sync" {
            for _round in 0..200 {
                for p in 0..n {
                    emit(&w.step(&json!({"a":"poll","p":p})));
                    w.net.borrow_mut().tx_ids.clear();
                }
                let mut moved = false;
                for x in 0..n as Addr {
                    for y in 0..n as Addr {
                        while x != y && w.net.borrow().in_flight(x, y) > 0 {
                            emit(&w.step(&json!({"a":"dlv","from":x,"to":y,"k":0})));
                            moved = true;
                        }
                    }
                }
                let all_running = (0..n).all(|p| match &w.peers[p].sess {
                    crate::world::Sess::P2P(s) => s.current_state() == ggrs::SessionState::Running,
                    crate::world::Sess::Spec(s) => s.current_state() == ggrs::SessionState::Running,
                    crate::world::Sess::Sync(_) => true,
                });
                if all_running && !moved {
                    break;
                }
            }
            for p in 0..n {
                emit(&w.step(&json!({"a":"ev","p":p})));
            }
            continue;
        }
        let l = w.step(s);
        w.net.borrow_mut().tx_ids.clear();
        emit(&l);
        enforce_cap(&mut w, emit);
    }
    emit(&json!({"a":"end","t":w.now()}));
    Ok(())
}
