//! The recording game: a hash chain over the inputs (and Disconnected flags) of every simulated
//! frame.  The same chain function is defined in spec/Props.tla (`Chain`), so TLC recomputes
//! every state independently from the logged inputs.
use ggrs::{GgrsRequest, InputStatus};
use serde_json::{json, Value};

use crate::HCfg;

pub const HASH_MOD: u64 = 1_000_003;
pub const HASH_MUL: u64 = 1009;

#[derive(Clone, Copy, Debug, PartialEq, Eq)]
pub struct GState {
    pub frame: i32,
    pub hash: u64,
}

pub fn status_code(s: InputStatus) -> u8 {
    match s {
        InputStatus::Confirmed => 0,
        InputStatus::Predicted => 1,
        InputStatus::Disconnected => 2,
    }
}

/// code of one player's contribution: the value, plus 300 if the player is flagged Disconnected
pub fn chain(hash: u64, inputs: &[(u64, u8)]) -> u64 {
    let mut sum: u64 = 0;
    for (i, (v, st)) in inputs.iter().enumerate() {
        let code = *v + if *st == 2 { 300 } else { 0 };
        sum += (i as u64 + 1) * (code + 1) * 13;
    }
    (hash * HASH_MUL + sum) % HASH_MOD
}

pub struct Game {
    pub st: GState,
    /// from this frame on, every advance adds a constant to the state (C09 detection half)
    pub corrupt_from: Option<i32>,
    /// glitch: the k-th simulation (1-based) of frame f yields a different state (C13)
    pub glitch: Option<(i32, u32)>,
    /// transient glitch: the deviation shows only in the checksum of the next save (a recomputed field of the
    /// state), it is not carried into later frames
    pub glitch_transient: bool,
    transient_pending: bool,
    sim_count: std::collections::HashMap<i32, u32>,
    /// report a checksum with every save
    pub with_checksum: bool,
    /// set when the configured glitch fired during the last `handle` call
    pub glitch_fired: bool,
    /// checksum of the most recent save of each frame (bounded)
    pub saved: std::collections::HashMap<i32, u64>,
}

impl Default for Game {
    fn default() -> Self {
        Self::new()
    }
}

impl Game {
    pub fn new() -> Self {
        Self {
            st: GState { frame: 0, hash: 7 },
            corrupt_from: None,
            glitch: None,
            glitch_transient: false,
            transient_pending: false,
            sim_count: Default::default(),
            with_checksum: true,
            glitch_fired: false,
            saved: Default::default(),
        }
    }

    /// Executes the requests strictly in order and returns their abstract description.
    /// `["S", f, game_frame, game_hash]`, `["L", f, loaded_frame, loaded_hash]`,
    /// `["A", [[value, status] ...]]`.  A load of an empty cell is reported with frame -2.
    pub fn handle<T: HCfg>(&mut self, reqs: Vec<GgrsRequest<T>>) -> Vec<Value> {
        let mut out = Vec::with_capacity(reqs.len());
        self.glitch_fired = false;
        for r in reqs {
            match r {
                GgrsRequest::SaveGameState { cell, frame } => {
                    out.push(json!(["S", frame, self.st.frame, self.st.hash]));
                    let cs = if self.with_checksum {
                        let bump = if self.transient_pending { 1 } else { 0 };
                        self.transient_pending = false;
                        Some(self.st.hash as u128 + bump)
                    } else {
                        None
                    };
                    // save under the frame the session names (the contract), with our state
                    cell.save(frame, Some(self.st), cs);
                    self.saved.insert(frame, self.st.hash);
                    if self.saved.len() > 4096 {
                        let lo = frame - 2048;
                        self.saved.retain(|k, _| *k >= lo);
                    }
                }
                GgrsRequest::LoadGameState { cell, frame } => match cell.load() {
                    Some(s) => {
                        out.push(json!(["L", frame, s.frame, s.hash]));
                        self.st = s;
                    }
                    None => {
                        out.push(json!(["L", frame, -2, 0]));
                    }
                },
                GgrsRequest::AdvanceFrame { inputs } => {
                    let ins: Vec<(u64, u8)> =
                        inputs.iter().map(|(v, s)| (T::dec(*v), status_code(*s))).collect();
                    out.push(json!([
                        "A",
                        ins.iter().map(|(v, s)| json!([v, s])).collect::<Vec<_>>()
                    ]));
                    let f = self.st.frame;
                    let n = self.sim_count.entry(f).or_insert(0);
                    *n += 1;
                    let mut h = chain(self.st.hash, &ins);
                    if let Some(cf) = self.corrupt_from {
                        if f >= cf {
                            h = (h + 17) % HASH_MOD;
                        }
                    }
                    if let Some((gf, k)) = self.glitch {
                        if gf == f && *n == k {
                            self.glitch_fired = true;
                            if self.glitch_transient {
                                self.transient_pending = true;
                            } else {
                                h = (h + 1) % HASH_MOD;
                            }
                        }
                    }
                    self.st = GState {
                        frame: f + 1,
                        hash: h,
                    };
                    // bound the bookkeeping
                    if self.sim_count.len() > 4096 {
                        let lo = f - 2048;
                        self.sim_count.retain(|k, _| *k >= lo);
                    }
                }
            }
        }
        out
    }
}
