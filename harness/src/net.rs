//! In-memory network fully controlled by the schedule: every `send_to` lands in the in-flight
//! queue of its directed link; a schedule step moves a packet to the destination's inbox
//! (deliver), removes it (drop) or copies it (dup).  `receive_all_messages` drains the inbox.
use ggrs::verif::{build_message, codec, describe_message, MsgDesc};
use ggrs::{Message, NonBlockingSocket};
use serde_json::{json, Value};
use std::cell::RefCell;
use std::collections::{BTreeMap, HashMap};
use std::rc::Rc;

use crate::Addr;

const EPOCH_BASE_MS: u128 = 1_700_000_000_000;

#[derive(Clone)]
pub struct Pkt {
    pub id: u64,
    pub from: Addr,
    pub to: Addr,
    pub msg: Message,
    /// abstract description (see `Net::abstract_msg`)
    pub abs: Value,
    pub is_input: bool,
}

#[derive(Default)]
pub struct Net {
    pub links: BTreeMap<(Addr, Addr), Vec<Pkt>>,
    pub inbox: BTreeMap<Addr, Vec<Pkt>>,
    pub next_id: u64,
    /// packets sent during the current step (abstract), for the trace
    pub tx_log: Vec<Value>,
    /// packets consumed during the current step (abstract), for the trace
    pub rx_log: Vec<Value>,
    /// ids of the packets sent during the current step (the driver decides their fate)
    pub tx_ids: Vec<(u64, Addr, Addr, bool)>,
    /// decoded input bytes per (sender, receiver, frame) as sent
    pub sent_hist: HashMap<(Addr, Addr), BTreeMap<i32, Vec<u8>>>,
    /// number of input bytes per frame each sender uses towards each receiver
    pub frame_bytes: HashMap<(Addr, Addr), usize>,
    /// bytes per player input (1, or 4 for the wide-input configuration)
    pub width: usize,
    /// handshake nonces renamed per requesting link, in order of first appearance
    nonce_ids: HashMap<(Addr, Addr), HashMap<u32, u32>>,
    /// magic number registered for each directed link (first packet sent on it)
    link_magic: HashMap<(Addr, Addr), u16>,
    /// the last genuine input packet sent on each link: (magic, description, decoded frames, reference)
    pub last_input: HashMap<(Addr, Addr), (u16, MsgDesc, Vec<Vec<u8>>, Vec<u8>)>,
    /// peers that no longer exist: packets to them vanish
    pub dead: Vec<Addr>,
    pub total_sent: u64,
}

impl Net {
    /// id of a nonce issued on the link `req_from -> req_to` (0 = never issued there)
    pub fn nonce_id(&mut self, req_from: Addr, req_to: Addr, n: u32, issue: bool) -> u32 {
        let t = self.nonce_ids.entry((req_from, req_to)).or_default();
        if let Some(id) = t.get(&n) {
            return *id;
        }
        if !issue {
            return 0;
        }
        let next = t.len() as u32 + 1;
        t.insert(n, next);
        next
    }
    /// 1 if the packet carries the magic number of the sending endpoint of this link
    pub fn magic_id(&mut self, from: Addr, to: Addr, m: u16) -> u32 {
        let reg = *self.link_magic.entry((from, to)).or_insert(m);
        if reg == m {
            1
        } else {
            0
        }
    }

    /// Abstract form of a message sent from `from` to `to`:
    /// `[kind, magic_id, ...]`
    pub fn abstract_msg(&mut self, from: Addr, to: Addr, msg: &Message) -> (Value, bool) {
        let (magic, d) = describe_message(msg);
        let mid = self.magic_id(from, to, magic);
        match d {
            MsgDesc::SyncRequest { nonce } => {
                (json!(["SRq", mid, self.nonce_id(from, to, nonce, true)]), false)
            }
            MsgDesc::SyncReply { nonce } => {
                (json!(["SRp", mid, self.nonce_id(to, from, nonce, false)]), false)
            }
            MsgDesc::InputAck { ack_frame } => (json!(["Ack", mid, ack_frame]), false),
            MsgDesc::QualityReport {
                frame_advantage,
                ping,
            } => (
                json!(["QRp", mid, frame_advantage, (ping.saturating_sub(EPOCH_BASE_MS)) as u64]),
                false,
            ),
            MsgDesc::QualityReply { pong } => (
                json!(["QRy", mid, (pong.saturating_sub(EPOCH_BASE_MS)) as u64]),
                false,
            ),
            MsgDesc::ChecksumReport { frame, checksum } => {
                (json!(["Ck", mid, frame, (checksum % 2_000_000_000) as u64]), false)
            }
            MsgDesc::KeepAlive => (json!(["KA", mid]), false),
            MsgDesc::Input {
                status,
                disconnect_requested,
                start_frame,
                ack_frame,
                bytes,
            } => {
                // decode against what this sender has sent before on this link
                let nb = *self.frame_bytes.get(&(from, to)).unwrap_or(&1);
                let reference = self
                    .sent_hist
                    .entry((from, to))
                    .or_default()
                    .get(&(start_frame - 1))
                    .cloned()
                    .unwrap_or_else(|| vec![0u8; nb]);
                let (vals, ok) = match codec::decode(&reference, &bytes) {
                    Ok(frames) => {
                        self.last_input.insert(
                            (from, to),
                            (
                                magic,
                                MsgDesc::Input {
                                    status: status.clone(),
                                    disconnect_requested,
                                    start_frame,
                                    ack_frame,
                                    bytes: bytes.clone(),
                                },
                                frames.clone(),
                                reference.clone(),
                            ),
                        );
                        let hist = self.sent_hist.entry((from, to)).or_default();
                        for (i, f) in frames.iter().enumerate() {
                            hist.insert(start_frame + i as i32, f.clone());
                        }
                        // bound the history
                        while hist.len() > 600 {
                            let k = *hist.keys().next().unwrap();
                            hist.remove(&k);
                        }
                        (
                            frames
                                .iter()
                                .map(|f| json!(crate::dec_frame(self.width, f)))
                                .collect::<Vec<_>>(),
                            true,
                        )
                    }
                    Err(_) => (vec![], false),
                };
                let st: Vec<Value> = status.iter().map(|(d, f)| json!([d, f])).collect();
                (
                    json!(["In", mid, start_frame, vals, ack_frame, disconnect_requested, st, ok]),
                    true,
                )
            }
        }
    }

    pub fn send(&mut self, from: Addr, to: Addr, msg: Message) {
        self.total_sent += 1;
        let (abs, is_input) = self.abstract_msg(from, to, &msg);
        let id = self.next_id;
        self.next_id += 1;
        self.tx_log.push(json!([to, id, abs]));
        if self.dead.contains(&to) {
            return;
        }
        self.tx_ids.push((id, from, to, is_input));
        self.links.entry((from, to)).or_default().push(Pkt {
            id,
            from,
            to,
            msg,
            abs,
            is_input,
        });
    }

    fn pos(&self, from: Addr, to: Addr, id: u64) -> Option<usize> {
        self.links
            .get(&(from, to))
            .and_then(|q| q.iter().position(|p| p.id == id))
    }

    /// deliver the k-th in-flight packet of the link (0-based); returns its id
    pub fn deliver_k(&mut self, from: Addr, to: Addr, k: usize) -> Option<u64> {
        let q = self.links.get_mut(&(from, to))?;
        if k >= q.len() {
            return None;
        }
        let p = q.remove(k);
        let id = p.id;
        if !self.dead.contains(&to) {
            self.inbox.entry(to).or_default().push(p);
        }
        Some(id)
    }
    pub fn drop_k(&mut self, from: Addr, to: Addr, k: usize) -> Option<u64> {
        let q = self.links.get_mut(&(from, to))?;
        if k >= q.len() {
            return None;
        }
        Some(q.remove(k).id)
    }
    /// duplicate the k-th in-flight packet (the copy is appended to the link queue)
    pub fn dup_k(&mut self, from: Addr, to: Addr, k: usize) -> Option<u64> {
        let id = self.next_id;
        let q = self.links.get_mut(&(from, to))?;
        if k >= q.len() {
            return None;
        }
        let mut p = q[k].clone();
        p.id = id;
        q.push(p);
        self.next_id += 1;
        Some(id)
    }
    pub fn index_of(&self, from: Addr, to: Addr, id: u64) -> Option<usize> {
        self.pos(from, to, id)
    }
    pub fn in_flight(&self, from: Addr, to: Addr) -> usize {
        self.links.get(&(from, to)).map(|q| q.len()).unwrap_or(0)
    }

    /// inject a forged packet straight into the destination's inbox
    /// `heard`: the packet carries the link's genuine magic number and address, so the receiving
    /// endpoint may count it as a sign of life of its peer; foreign packets must not count.
    pub fn inject(&mut self, from: Addr, to: Addr, magic: u16, desc: &MsgDesc, heard: bool) {
        let msg = build_message(magic, desc);
        let id = self.next_id;
        self.next_id += 1;
        self.inbox.entry(to).or_default().push(Pkt {
            id,
            from,
            to,
            msg,
            abs: json!(["Forged", heard]),
            is_input: false,
        });
    }

    /// Build a forged packet from `from` for `to` (C08).  Returns its description for the trace.
    /// kinds: shortStatus, negStart, badPayload, wrongSizeAll, wrongSizeFirst, wrongSizeLast,
    ///        foreignMagic, unknownAddr
    pub fn forge(&mut self, from: Addr, to: Addr, kind: &str, salt: u64, payload: Option<Vec<u8>>) -> Value {
        // packets of every other kind carrying another session's magic number (from a known address)
        if let Some(body) = kind.strip_prefix("foreign:") {
            let magic = *self.link_magic.get(&(from, to)).unwrap_or(&1);
            let m_magic = {
                let m = magic.wrapping_add(1 + (salt % 1000) as u16);
                if m == 0 || m == magic { magic.wrapping_add(7).max(1) } else { m }
            };
            let d = match body {
                "SyncRequest" => MsgDesc::SyncRequest { nonce: 0x5151_0000 + salt as u32 },
                "SyncReply" => MsgDesc::SyncReply { nonce: 0x5151_0000 + salt as u32 },
                "InputAck" => MsgDesc::InputAck { ack_frame: (salt % 50) as i32 },
                "QualityReport" => MsgDesc::QualityReport { frame_advantage: (salt % 7) as i16, ping: salt as u128 },
                "QualityReply" => MsgDesc::QualityReply { pong: salt as u128 },
                "ChecksumReport" => MsgDesc::ChecksumReport { frame: (salt % 50) as i32, checksum: salt as u128 },
                _ => MsgDesc::KeepAlive,
            };
            self.inject(from, to, m_magic, &d, false);
            return json!([kind, from, 0, 0]);
        }
        let base = self.last_input.get(&(from, to)).cloned();
        // without a genuine input packet on this link (handshake phase, or a spectator -> host link)
        // only forge kinds that do not fabricate well-formed input frames
        let kind = if base.is_none() && (kind.starts_with("wrongSize") || kind == "shortStatus") {
            "badPayload"
        } else {
            kind
        };
        let nplayers = *self.frame_bytes.get(&(from, to)).unwrap_or(&1);
        let (magic, desc, frames, reference) = match base {
            Some(b) => b,
            None => (
                *self.link_magic.get(&(from, to)).unwrap_or(&1),
                MsgDesc::Input {
                    status: vec![(false, -1); 2],
                    disconnect_requested: false,
                    start_frame: 0,
                    ack_frame: -1,
                    bytes: codec::encode(&vec![0u8; nplayers], &[vec![1u8; nplayers]]),
                },
                vec![vec![1u8; nplayers]],
                vec![0u8; nplayers],
            ),
        };
        let MsgDesc::Input { status, disconnect_requested, start_frame, ack_frame, bytes } = desc else {
            return json!(["none"]);
        };
        let mut m_magic = magic;
        let mut m_from = from;
        let mut st = status.clone();
        let mut sf = start_frame;
        let mut by = bytes.clone();
        let fsize = frames.first().map(|f| f.len()).unwrap_or(nplayers).max(1);
        let wrong = |k: u64| -> Vec<u8> { vec![(3 + k % 250) as u8; fsize + 1 + (k % 2) as usize] };
        let right = |k: u64| -> Vec<u8> { vec![(5 + k % 250) as u8; fsize] };
        match kind {
            "shortStatus" => {
                if salt % 2 == 0 && !st.is_empty() {
                    st.pop();
                } else {
                    st.push((false, 3));
                }
            }
            "negStart" => {
                sf = if salt % 4 == 0 { i32::MIN + (salt % 3) as i32 } else { -1 - (salt % 5) as i32 }
            }
            "badPayload" => {
                by = payload.unwrap_or_else(|| vec![0x80 | (salt % 128) as u8]);
            }
            "wrongSizeAll" => {
                let fr: Vec<Vec<u8>> = (0..frames.len().max(1) as u64 + 2).map(|k| wrong(salt + k)).collect();
                by = codec::encode(&reference, &fr);
            }
            "wrongSizeFirst" => {
                // a wrong-sized frame followed by well-sized frames, all beyond what was sent so far
                let mut fr: Vec<Vec<u8>> = frames.clone();
                fr.push(wrong(salt));
                fr.push(right(salt));
                fr.push(right(salt + 1));
                by = codec::encode(&reference, &fr);
            }
            "wrongSizeLast" => {
                let mut fr: Vec<Vec<u8>> = frames.clone();
                fr.push(wrong(salt));
                by = codec::encode(&reference, &fr);
            }
            "foreignMagic" => m_magic = magic.wrapping_add(1 + (salt % 1000) as u16).max(1),
            "unknownAddr" => m_from = 200 + (salt % 50) as Addr,
            _ => {}
        }
        let d = MsgDesc::Input {
            status: st,
            disconnect_requested,
            start_frame: sf,
            ack_frame,
            bytes: by.clone(),
        };
        self.inject(m_from, to, m_magic, &d, m_from == from && m_magic == magic);
        json!([kind, m_from, sf, by.len()])
    }

    pub fn kill(&mut self, a: Addr) {
        self.dead.push(a);
        self.inbox.remove(&a);
        let keys: Vec<_> = self.links.keys().filter(|(_, t)| *t == a).cloned().collect();
        for k in keys {
            self.links.remove(&k);
        }
    }
}

pub struct SimSocket {
    pub me: Addr,
    pub net: Rc<RefCell<Net>>,
}

impl NonBlockingSocket<Addr> for SimSocket {
    fn send_to(&mut self, msg: &Message, addr: &Addr) {
        self.net.borrow_mut().send(self.me, *addr, msg.clone());
    }
    fn receive_all_messages(&mut self) -> Vec<(Addr, Message)> {
        let mut net = self.net.borrow_mut();
        let pkts = net.inbox.remove(&self.me).unwrap_or_default();
        let mut out = Vec::with_capacity(pkts.len());
        for p in pkts {
            net.rx_log.push(json!([p.from, p.id, p.abs]));
            out.push((p.from, p.msg));
        }
        out
    }
}
