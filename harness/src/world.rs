//! A world of real ggrs sessions driven step by step.  One trace line per step.
use ggrs::{
    DesyncDetection, GgrsError, GgrsEvent, P2PSession, PlayerType, SessionBuilder, SessionState,
    SpectatorSession, SyncTestSession,
};
use serde_json::{json, Map, Value};
use std::cell::RefCell;
use std::panic::{catch_unwind, AssertUnwindSafe};
use std::rc::Rc;

use crate::game::Game;
use crate::net::{Net, SimSocket};
use crate::{panic_message, Addr, HCfg};

pub fn err_code(e: &GgrsError) -> String {
    match e {
        GgrsError::PredictionThreshold => "E:PredictionThreshold".into(),
        GgrsError::InvalidRequest { .. } => "E:InvalidRequest".into(),
        GgrsError::MismatchedChecksum { .. } => "E:MismatchedChecksum".into(),
        GgrsError::NotSynchronized => "E:NotSynchronized".into(),
        GgrsError::SpectatorTooFarBehind => "E:SpectatorTooFarBehind".into(),
        GgrsError::NotEnoughData => "E:NotEnoughData".into(),
    }
}

pub enum Sess<T: HCfg> {
    P2P(P2PSession<T>),
    Spec(SpectatorSession<T>),
    Sync(SyncTestSession<T>),
}

pub struct Peer<T: HCfg> {
    pub sess: Sess<T>,
    pub game: Game,
    pub alive: bool,
    pub crashed: bool,
    pub locals: Vec<usize>,
    pub is_spec: bool,
}

pub struct World<T: HCfg> {
    pub cfg: Value,
    pub net: Rc<RefCell<Net>>,
    pub peers: Vec<Peer<T>>,
    pub step_no: u64,
    /// level of detail: 0 = observables only, 1 = + packets, 2 = + full snapshot
    pub detail: u8,
}

/// Snapshots carry inputs as their bytes; project them to the abstract values of the plans
/// (identity for one-byte inputs).
fn project_inputs(width: usize, mut v: Value) -> Value {
    fn walk(width: usize, v: &mut Value) {
        match v {
            Value::Object(m) => {
                for (k, x) in m.iter_mut() {
                    if k == "pred_input" || k == "newest_input" {
                        if let Some(a) = x.as_array() {
                            let bytes: Vec<u8> = a.iter().map(|b| b.as_u64().unwrap_or(0) as u8).collect();
                            *x = json!(crate::dec_frame(width, &bytes));
                        }
                    } else {
                        walk(width, x);
                    }
                }
            }
            Value::Array(a) => {
                for x in a.iter_mut() {
                    walk(width, x);
                }
            }
            _ => {}
        }
    }
    if width > 1 {
        walk(width, &mut v);
    }
    v
}

fn cfg_u(c: &Value, k: &str, d: u64) -> u64 {
    c.get(k).and_then(|v| v.as_u64()).unwrap_or(d)
}
fn cfg_b(c: &Value, k: &str, d: bool) -> bool {
    c.get(k).and_then(|v| v.as_bool()).unwrap_or(d)
}

impl<T: HCfg> World<T> {
    /// Build sessions from a scenario configuration:
    /// `{players, window, sparse, desync, fps, timeout, notify, max_behind, catchup,
    ///   peers:[{kind:"p2p",locals:[..],delay:d}|{kind:"spec",host:i}]}`
    pub fn new(cfg: &Value, detail: u8) -> Result<Self, String> {
        instant::verif_set_ms(1_000_000);
        let net = Rc::new(RefCell::new(Net::default()));
        net.borrow_mut().width = T::WIDTH;
        let players = cfg_u(cfg, "players", 2) as usize;
        let window = cfg_u(cfg, "window", 8) as usize;
        let sparse = cfg_b(cfg, "sparse", false);
        let desync = cfg_u(cfg, "desync", 0) as u32;
        let fps = cfg_u(cfg, "fps", 60) as usize;
        let timeout = cfg_u(cfg, "timeout", 2000);
        let notify = cfg_u(cfg, "notify", 500);
        let max_behind = cfg_u(cfg, "max_behind", 10) as usize;
        let catchup = cfg_u(cfg, "catchup", 1) as usize;
        let peers_cfg = cfg
            .get("peers")
            .and_then(|v| v.as_array())
            .ok_or("cfg.peers missing")?
            .clone();

        // owner of each player handle
        let mut owner: Vec<Option<Addr>> = vec![None; players];
        for (i, pc) in peers_cfg.iter().enumerate() {
            if pc["kind"] == "p2p" || pc["kind"] == "synctest" {
                for h in pc["locals"].as_array().ok_or("locals")? {
                    let h = h.as_u64().ok_or("handle")? as usize;
                    if h < players {
                        owner[h] = Some(i as Addr);
                    }
                }
            }
        }

        let mut peers = Vec::new();
        for (i, pc) in peers_cfg.iter().enumerate() {
            let me = i as Addr;
            let sock = SimSocket {
                me,
                net: net.clone(),
            };
            if pc["kind"] == "synctest" {
                let b = SessionBuilder::<T>::new()
                    .with_num_players(players)
                    .map_err(|e| e.to_string())?
                    .with_max_prediction_window(window)
                    .with_input_delay(cfg_u(pc, "delay", 0) as usize)
                    .with_check_distance(cfg_u(cfg, "check_distance", 2) as usize);
                let sess = b.start_synctest_session().map_err(|e| e.to_string())?;
                let mut game = Game::new();
                if let (Some(f), Some(k)) = (
                    cfg.get("glitch_frame").and_then(|v| v.as_i64()),
                    cfg.get("glitch_k").and_then(|v| v.as_u64()),
                ) {
                    game.glitch = Some((f as i32, k as u32));
                    game.glitch_transient = cfg.get("glitch_transient").and_then(|v| v.as_bool()).unwrap_or(false);
                }
                peers.push(Peer {
                    sess: Sess::Sync(sess),
                    game,
                    alive: true,
                    crashed: false,
                    locals: (0..players).collect(),
                    is_spec: false,
                });
            } else if pc["kind"] == "p2p" {
                let locals: Vec<usize> = pc["locals"]
                    .as_array()
                    .unwrap()
                    .iter()
                    .map(|h| h.as_u64().unwrap() as usize)
                    .collect();
                let delay = cfg_u(pc, "delay", 0) as usize;
                let mut b = SessionBuilder::<T>::new()
                    .with_num_players(players)
                    .map_err(|e| e.to_string())?
                    .with_max_prediction_window(window)
                    .with_sparse_saving_mode(sparse)
                    .with_input_delay(delay)
                    .with_fps(fps)
                    .map_err(|e| e.to_string())?
                    .with_disconnect_timeout(instant::Duration::from_millis(timeout))
                    .with_disconnect_notify_delay(instant::Duration::from_millis(notify))
                    .with_desync_detection_mode(if desync > 0 {
                        DesyncDetection::On { interval: desync }
                    } else {
                        DesyncDetection::Off
                    });
                for h in 0..players {
                    let ty = match owner[h] {
                        Some(a) if a == me => PlayerType::Local,
                        Some(a) => PlayerType::Remote(a),
                        None => return Err(format!("player {h} has no owner")),
                    };
                    b = b.add_player(ty, h).map_err(|e| e.to_string())?;
                }
                // spectators attached to this host
                let mut sh = players;
                for (j, qc) in peers_cfg.iter().enumerate() {
                    if qc["kind"] == "spec" && cfg_u(qc, "host", 0) as usize == i {
                        b = b
                            .add_player(PlayerType::Spectator(j as Addr), sh)
                            .map_err(|e| e.to_string())?;
                        sh += 1;
                        net.borrow_mut().frame_bytes.insert((me, j as Addr), players * T::WIDTH);
                    }
                }
                for (j, qc) in peers_cfg.iter().enumerate() {
                    if qc["kind"] == "p2p" && j != i {
                        net.borrow_mut()
                            .frame_bytes
                            .insert((me, j as Addr), locals.len() * T::WIDTH);
                    }
                }
                let sess = b.start_p2p_session(sock).map_err(|e| e.to_string())?;
                peers.push(Peer {
                    sess: Sess::P2P(sess),
                    game: Game::new(),
                    alive: true,
                    crashed: false,
                    locals,
                    is_spec: false,
                });
            } else {
                let host = cfg_u(pc, "host", 0) as Addr;
                let b = SessionBuilder::<T>::new()
                    .with_num_players(players)
                    .map_err(|e| e.to_string())?
                    .with_max_prediction_window(window)
                    .with_fps(fps)
                    .map_err(|e| e.to_string())?
                    .with_disconnect_timeout(instant::Duration::from_millis(timeout))
                    .with_disconnect_notify_delay(instant::Duration::from_millis(notify))
                    .with_max_frames_behind(max_behind)
                    .map_err(|e| e.to_string())?
                    .with_catchup_speed(catchup)
                    .map_err(|e| e.to_string())?;
                let sess = b.start_spectator_session(host, sock);
                net.borrow_mut().frame_bytes.insert((me, host), 1);
                peers.push(Peer {
                    sess: Sess::Spec(sess),
                    game: Game::new(),
                    alive: true,
                    crashed: false,
                    locals: vec![],
                    is_spec: true,
                });
            }
        }
        // game options
        for (i, pc) in peers_cfg.iter().enumerate() {
            if let Some(f) = pc.get("corrupt_from").and_then(|v| v.as_i64()) {
                peers[i].game.corrupt_from = Some(f as i32);
            }
        }
        // normalised configuration (every peer entry carries kind, locals, delay, host)
        let mut ncfg = cfg.clone();
        if let Some(ps) = ncfg.get_mut("peers").and_then(|v| v.as_array_mut()) {
            for pc in ps.iter_mut() {
                if let Some(o) = pc.as_object_mut() {
                    o.entry("locals").or_insert(json!([]));
                    o.entry("delay").or_insert(json!(0));
                    o.entry("host").or_insert(json!(0));
                }
            }
        }
        Ok(Self {
            cfg: ncfg,
            net,
            peers,
            step_no: 0,
            detail,
        })
    }

    pub fn now(&self) -> u64 {
        instant::verif_now_ms()
    }

    fn event_json(e: &GgrsEvent<T>) -> Value {
        match e {
            GgrsEvent::Synchronizing { addr, total, count } => json!(["Sing", addr, total, count]),
            GgrsEvent::Synchronized { addr } => json!(["Sed", addr]),
            GgrsEvent::Disconnected { addr } => json!(["Disc", addr]),
            GgrsEvent::NetworkInterrupted {
                addr,
                disconnect_timeout,
            } => json!(["Intr", addr, *disconnect_timeout as u64]),
            GgrsEvent::NetworkResumed { addr } => json!(["Resu", addr]),
            GgrsEvent::WaitRecommendation { skip_frames } => json!(["Wait", skip_frames]),
            GgrsEvent::DesyncDetected {
                frame,
                local_checksum,
                remote_checksum,
                addr,
            } => json!([
                "Desy",
                addr,
                frame,
                (*local_checksum % 2_000_000_000) as u64,
                (*remote_checksum % 2_000_000_000) as u64
            ]),
        }
    }

    /// observable state of a peer appended to a trace line
    fn observe(&self, p: usize, line: &mut Map<String, Value>) {
        let peer = &self.peers[p];
        line.insert("g".into(), json!([peer.game.st.frame, peer.game.st.hash]));
        match &peer.sess {
            Sess::P2P(s) => {
                let r = catch_unwind(AssertUnwindSafe(|| {
                    let snap = s.verif_snapshot();
                    (
                        s.current_frame(),
                        if s.current_state() == SessionState::Running {
                            s.confirmed_frame()
                        } else {
                            -1
                        },
                        s.current_state() == SessionState::Running,
                        s.frames_ahead(),
                        snap,
                    )
                }));
                if let Ok((cur, conf, run, fa, snap)) = r {
                    line.insert("cur".into(), json!(cur));
                    line.insert("conf".into(), json!(conf));
                    line.insert("run".into(), json!(run));
                    line.insert("fa".into(), json!(fa));
                    line.insert(
                        "st".into(),
                        json!(snap.status.iter().map(|(d, f)| json!([d, f])).collect::<Vec<_>>()),
                    );
                    line.insert("evq".into(), json!(snap.evq));
                    // buffer sizes (C18)
                    let mut bufs = Map::new();
                    bufs.insert("out".into(), json!(snap.outgoing.len()));
                    bufs.insert("pl".into(), json!(snap.pending_local.len()));
                    bufs.insert("ck".into(), json!(snap.checksum_history.len()));
                    bufs.insert(
                        "ep".into(),
                        json!(snap
                            .remotes
                            .iter()
                            .chain(snap.spectators.iter())
                            .map(|e| json!([
                                e.addr.parse::<u64>().unwrap_or(999),
                                e.pending_len,
                                e.recv_len,
                                e.pending_checksums.len(),
                                e.send_queue,
                                e.event_queue,
                                e.state
                            ]))
                            .collect::<Vec<_>>()),
                    );
                    line.insert("buf".into(), Value::Object(bufs));
                    // further getters of the public API
                    line.insert(
                        "gt".into(),
                        json!([s.num_players(), s.num_spectators(), s.max_prediction(), s.in_lockstep_mode()]),
                    );
                    // the handle getters of the public API, as returned
                    line.insert(
                        "hl".into(),
                        json!([s.local_player_handles(), s.remote_player_handles(), s.spectator_handles()]),
                    );
                    line.insert("lso".into(), json!(snap.last_sent_outgoing));
                    line.insert(
                        "og".into(),
                        json!(snap.outgoing.iter().map(|(f, _)| *f).collect::<Vec<_>>()),
                    );
                    if self.detail >= 2 {
                        line.insert("sn".into(), project_inputs(T::WIDTH, serde_json::to_value(&snap).unwrap()));
                    }
                }
            }
            Sess::Sync(s) => {
                let snap = s.verif_snapshot();
                let cur = s.current_frame();
                let d = snap.sync.queues.first().map(|q| q.delay as i32).unwrap_or(0);
                line.insert("cur".into(), json!(cur));
                line.insert("conf".into(), json!(cur - 1));
                line.insert("run".into(), json!(true));
                line.insert("fa".into(), json!(0));
                line.insert("evq".into(), json!(0));
                line.insert(
                    "st".into(),
                    json!((0..snap.num_players).map(|_| json!([false, cur - 1 + d])).collect::<Vec<_>>()),
                );
                if self.detail >= 2 {
                    line.insert("sn".into(), project_inputs(T::WIDTH, serde_json::to_value(&snap).unwrap()));
                }
            }
            Sess::Spec(s) => {
                let snap = s.verif_snapshot();
                line.insert("cur".into(), json!(s.current_frame()));
                line.insert("run".into(), json!(s.current_state() == SessionState::Running));
                line.insert("lrf".into(), json!(snap.last_recv_frame));
                // public getters: frames_behind_host() (asserts last_recv_frame >= current_frame), num_players()
                let fbh = catch_unwind(AssertUnwindSafe(|| s.frames_behind_host() as i64)).unwrap_or(-1000);
                line.insert("fbh".into(), json!(fbh));
                line.insert("npl".into(), json!(s.num_players()));
                line.insert("evq".into(), json!(snap.evq));
                line.insert(
                    "st".into(),
                    json!(snap
                        .host_status
                        .iter()
                        .map(|(d, f)| json!([d, f]))
                        .collect::<Vec<_>>()),
                );
                if self.detail >= 2 {
                    line.insert("sn".into(), project_inputs(T::WIDTH, serde_json::to_value(&snap).unwrap()));
                }
            }
        }
    }

    fn take_logs(&self, line: &mut Map<String, Value>) {
        let mut net = self.net.borrow_mut();
        let rx = std::mem::take(&mut net.rx_log);
        let tx = std::mem::take(&mut net.tx_log);
        // the input packets consumed: [from, start, nframes, disconnect_requested]
        let rxi: Vec<Value> = rx
            .iter()
            .filter(|m| m[2][0] == "In")
            .map(|m| {
                json!([
                    m[0],
                    m[2][2],
                    m[2][3].as_array().map(|a| a.len()).unwrap_or(0),
                    m[2][5]
                ])
            })
            .collect();
        line.insert("rxi".into(), Value::Array(rxi));
        // handshake packets: requests sent [to, nonce id], replies consumed [from, nonce id, magic ok]
        let stx: Vec<Value> = tx
            .iter()
            .filter(|m| m[2][0] == "SRq")
            .map(|m| json!([m[0], m[2][2]]))
            .collect();
        let srx: Vec<Value> = rx
            .iter()
            .filter(|m| m[2][0] == "SRp")
            .map(|m| json!([m[0], m[2][2], m[2][1]]))
            .collect();
        if !stx.is_empty() {
            line.insert("stx".into(), Value::Array(stx));
        }
        if !srx.is_empty() {
            line.insert("srx".into(), Value::Array(srx));
        }
        // distinct senders of all consumed packets
        // (forged packets with a foreign magic number or address are no sign of life of the peer)
        let mut rxf: Vec<u64> = rx
            .iter()
            .filter(|m| !(m[2][0] == "Forged" && m[2][1] == false))
            .filter_map(|m| m[0].as_u64())
            .collect();
        rxf.sort_unstable();
        rxf.dedup();
        line.insert("rxf".into(), json!(rxf));
        line.insert("ntx".into(), json!(tx.len()));
        if self.detail >= 1 {
            line.insert("rx".into(), Value::Array(rx));
            line.insert("tx".into(), Value::Array(tx));
        }
    }

    /// Execute one schedule step; returns the trace line.
    pub fn step(&mut self, s: &Value) -> Value {
        self.step_no += 1;
        let act = s["a"].as_str().unwrap_or("").to_string();
        let mut line = Map::new();
        line.insert("n".into(), json!(self.step_no));
        line.insert("a".into(), json!(act));
        line.insert("t".into(), json!(self.now()));
        let p = s.get("p").and_then(|v| v.as_u64()).unwrap_or(0) as usize;
        match act.as_str() {
            "clk" => {
                let d = s["d"].as_u64().unwrap_or(0);
                instant::verif_advance_ms(d);
                line.insert("d".into(), json!(d));
                line.insert("t".into(), json!(self.now()));
            }
            "dlv" | "drop" | "dup" => {
                let from = s["from"].as_u64().unwrap_or(0) as Addr;
                let to = s["to"].as_u64().unwrap_or(0) as Addr;
                let mut net = self.net.borrow_mut();
                // by packet id (random driver) or by queue position (TLC schedules)
                let k = if let Some(id) = s.get("id").and_then(|v| v.as_u64()) {
                    net.index_of(from, to, id)
                } else {
                    s.get("k").and_then(|v| v.as_u64()).map(|k| k as usize)
                };
                let r = match (act.as_str(), k) {
                    ("dlv", Some(k)) => net.deliver_k(from, to, k),
                    ("drop", Some(k)) => net.drop_k(from, to, k),
                    ("dup", Some(k)) => net.dup_k(from, to, k),
                    _ => None,
                };
                line.insert("from".into(), json!(from));
                line.insert("to".into(), json!(to));
                line.insert("k".into(), json!(k.map(|k| k as i64).unwrap_or(-1)));
                line.insert("id".into(), json!(r.map(|k| k as i64).unwrap_or(-1)));
                line.insert("ok".into(), json!(r.is_some()));
            }
            "forge" => {
                // a forged / malformed packet is put into the inbox of peer `to` (C08)
                let from = s["from"].as_u64().unwrap_or(0) as Addr;
                let to = s["to"].as_u64().unwrap_or(0) as Addr;
                let kind = s["kind"].as_str().unwrap_or("badPayload").to_string();
                let salt = s["salt"].as_u64().unwrap_or(0);
                let payload: Option<Vec<u8>> = s.get("payload").and_then(|v| v.as_array()).map(|a| {
                    a.iter().map(|x| x.as_u64().unwrap_or(0) as u8).collect()
                });
                let d = self.net.borrow_mut().forge(from, to, &kind, salt, payload);
                line.insert("from".into(), json!(from));
                line.insert("to".into(), json!(to));
                line.insert("kind".into(), json!(kind));
                line.insert("forged".into(), d);
            }
            "kill" => {
                line.insert("p".into(), json!(p));
                if p < self.peers.len() {
                    self.peers[p].alive = false;
                    self.net.borrow_mut().kill(p as Addr);
                }
            }
            "tick" | "poll" | "ev" | "disc" | "dly" | "stats" | "addonly" => {
                line.insert("p".into(), json!(p));
                if p >= self.peers.len() || !self.peers[p].alive || self.peers[p].crashed {
                    line.insert("r".into(), json!("skip"));
                } else {
                    if let Some(e) = s.get("expect") {
                        line.insert("expect".into(), e.clone());
                    }
                    if let Some(e) = s.get("expect_add") {
                        line.insert("expect_add".into(), e.clone());
                    }
                    self.peer_step(&act, p, s, &mut line);
                    if act == "ev" {
                        // DesyncDetected: attach the checksums both games really saved for that frame
                        if let Some(Value::Array(evs)) = line.get_mut("ev") {
                            for e in evs.iter_mut() {
                                if e[0] == "Desy" {
                                    let q = e[1].as_u64().unwrap_or(0) as usize;
                                    let f = e[2].as_i64().unwrap_or(0) as i32;
                                    let mine = self.peers[p].game.saved.get(&f).map(|v| *v as i64).unwrap_or(-1);
                                    let theirs = if q < self.peers.len() {
                                        self.peers[q].game.saved.get(&f).map(|v| *v as i64).unwrap_or(-1)
                                    } else {
                                        -1
                                    };
                                    if let Some(a) = e.as_array_mut() {
                                        a.push(json!(mine));
                                        a.push(json!(theirs));
                                    }
                                }
                            }
                        }
                    }
                    self.take_logs(&mut line);
                    if !self.peers[p].crashed {
                        self.observe(p, &mut line);
                    }
                }
            }
            _ => {
                line.insert("r".into(), json!("unknown-step"));
            }
        }
        Value::Object(line)
    }

    fn peer_step(&mut self, act: &str, p: usize, s: &Value, line: &mut Map<String, Value>) {
        let peer = &mut self.peers[p];
        match (&mut peer.sess, act) {
            (Sess::P2P(sess), "tick") | (Sess::P2P(sess), "addonly") => {
                let cur0 = sess.current_frame();
                line.insert("cur0".into(), json!(cur0));
                line.insert("g0".into(), json!([peer.game.st.frame, peer.game.st.hash]));
                // inputs: [[handle, value], ...]
                let ins: Vec<(usize, u8)> = s["in"]
                    .as_array()
                    .map(|a| {
                        a.iter()
                            .map(|hv| {
                                (
                                    hv[0].as_u64().unwrap_or(0) as usize,
                                    hv[1].as_u64().unwrap_or(0) as u8,
                                )
                            })
                            .collect()
                    })
                    .unwrap_or_default();
                // frame-indexed inputs (cfg.inputs_by_frame = alphabet size): the value a player
                // submits depends only on (handle, frame), so runs with different timing are comparable
                let by_frame = self.cfg.get("inputs_by_frame").and_then(|v| v.as_u64()).unwrap_or(0);
                let ins: Vec<(usize, u8)> = if by_frame > 0 {
                    ins.iter()
                        .map(|(h, _)| {
                            let x = (cur0 as u64).wrapping_mul(2654435761) >> 9;
                            (*h, ((x + (*h as u64) * 3 + (cur0 as u64) / 5) % by_frame) as u8)
                        })
                        .collect()
                } else {
                    ins
                };
                line.insert(
                    "in".into(),
                    json!(ins.iter().map(|(h, v)| json!([h, v])).collect::<Vec<_>>()),
                );
                let mut adds = Vec::new();
                for (h, v) in &ins {
                    let r = catch_unwind(AssertUnwindSafe(|| sess.add_local_input(*h, T::enc(*v))));
                    adds.push(match r {
                        Ok(Ok(())) => "ok".to_string(),
                        Ok(Err(e)) => err_code(&e),
                        Err(e) => format!("P:{}", panic_message(e)),
                    });
                }
                line.insert("add".into(), json!(adds));
                if act == "addonly" {
                    line.insert("r".into(), json!("ok"));
                    return;
                }
                // `wait` (ms): advance_frame_with_wait_timeout; `arr` = packets that reach the socket while
                // the call waits: [[offset ms (1..=wait), from, position in the link or packet id, by id?]...]
                let wait = s.get("wait").and_then(|v| v.as_u64());
                let r = if let Some(wms) = wait {
                    let mut arr: Vec<(u64, Addr, u64, bool)> = s
                        .get("arr")
                        .and_then(|v| v.as_array())
                        .map(|a| {
                            a.iter()
                                .map(|x| {
                                    (
                                        x[0].as_u64().unwrap_or(0),
                                        x[1].as_u64().unwrap_or(0) as Addr,
                                        x[2].as_u64().unwrap_or(0),
                                        x.get(3).and_then(|b| b.as_bool()).unwrap_or(false),
                                    )
                                })
                                .collect()
                        })
                        .unwrap_or_default();
                    arr.sort_by_key(|a| a.0);
                    let net = self.net.clone();
                    let me = p as Addr;
                    let happened: Rc<RefCell<Vec<Value>>> = Rc::new(RefCell::new(Vec::new()));
                    let hap = happened.clone();
                    let mut elapsed = 0u64;
                    instant::verif_set_yield(Some(Box::new(move || {
                        instant::verif_advance_ms(1);
                        elapsed += 1;
                        for (off, from, key, by_id) in arr.iter() {
                            if *off == elapsed {
                                let mut n = net.borrow_mut();
                                let k = if *by_id { n.index_of(*from, me, *key) } else { Some(*key as usize) };
                                if let Some(k) = k {
                                    if let Some(id) = n.deliver_k(*from, me, k) {
                                        hap.borrow_mut().push(json!([off, from, k, id]));
                                    }
                                }
                            }
                        }
                    })));
                    // `wait_default`: the variant without argument (one frame duration at the session's fps;
                    // the plan states the equivalent number of milliseconds in `wait`)
                    let dflt = s.get("wait_default").and_then(|v| v.as_bool()).unwrap_or(false);
                    let r = catch_unwind(AssertUnwindSafe(|| {
                        if dflt {
                            sess.advance_frame_with_wait()
                        } else {
                            sess.advance_frame_with_wait_timeout(std::time::Duration::from_millis(wms))
                        }
                    }));
                    instant::verif_set_yield(None);
                    line.insert("wait".into(), json!(wms));
                    line.insert("arr".into(), Value::Array(happened.borrow().clone()));
                    line.insert("t1".into(), json!(instant::verif_now_ms()));
                    r
                } else {
                    catch_unwind(AssertUnwindSafe(|| sess.advance_frame()))
                };
                match r {
                    Ok(Ok(reqs)) => {
                        let game = &mut peer.game;
                        let q = catch_unwind(AssertUnwindSafe(|| game.handle(reqs)));
                        match q {
                            Ok(q) => {
                                line.insert("r".into(), json!("ok"));
                                line.insert("q".into(), Value::Array(q));
                            }
                            Err(e) => {
                                line.insert(
                                    "r".into(),
                                    json!(format!("P:game:{}", panic_message(e))),
                                );
                                peer.crashed = true;
                            }
                        }
                    }
                    Ok(Err(e)) => {
                        line.insert("r".into(), json!(err_code(&e)));
                        line.insert("q".into(), json!([]));
                    }
                    Err(e) => {
                        line.insert("r".into(), json!(format!("P:{}", panic_message(e))));
                        peer.crashed = true;
                    }
                }
            }
            (Sess::Sync(sess), "tick") | (Sess::Sync(sess), "addonly") => {
                line.insert("cur0".into(), json!(sess.current_frame()));
                line.insert("g0".into(), json!([peer.game.st.frame, peer.game.st.hash]));
                let ins: Vec<(usize, u8)> = s["in"]
                    .as_array()
                    .map(|a| {
                        a.iter()
                            .map(|hv| (hv[0].as_u64().unwrap_or(0) as usize, hv[1].as_u64().unwrap_or(0) as u8))
                            .collect()
                    })
                    .unwrap_or_default();
                line.insert("in".into(), s["in"].clone());
                let mut adds = Vec::new();
                for (h, v) in &ins {
                    adds.push(match sess.add_local_input(*h, T::enc(*v)) {
                        Ok(()) => "ok".to_string(),
                        Err(e) => err_code(&e),
                    });
                }
                line.insert("add".into(), json!(adds));
                if act == "addonly" {
                    line.insert("r".into(), json!("ok"));
                    return;
                }
                let r = catch_unwind(AssertUnwindSafe(|| sess.advance_frame()));
                match r {
                    Ok(Ok(reqs)) => {
                        let q = peer.game.handle(reqs);
                        line.insert("r".into(), json!("ok"));
                        line.insert("q".into(), Value::Array(q));
                        if peer.game.glitch_fired {
                            line.insert("glitched".into(), json!(true));
                        }
                    }
                    Ok(Err(e)) => {
                        if let GgrsError::MismatchedChecksum { mismatched_frames, .. } = &e {
                            line.insert("mm".into(), json!(mismatched_frames));
                        }
                        line.insert("r".into(), json!(err_code(&e)));
                        line.insert("q".into(), json!([]));
                        // the session reports the same mismatch from now on: stop driving it
                        if matches!(e, GgrsError::MismatchedChecksum { .. }) {
                            peer.alive = false;
                        }
                    }
                    Err(e) => {
                        line.insert("r".into(), json!(format!("P:{}", panic_message(e))));
                        peer.crashed = true;
                    }
                }
            }
            (Sess::Spec(sess), "tick") => {
                line.insert("cur0".into(), json!(sess.current_frame()));
                line.insert("g0".into(), json!([peer.game.st.frame, peer.game.st.hash]));
                let r = catch_unwind(AssertUnwindSafe(|| sess.advance_frame()));
                match r {
                    Ok(Ok(reqs)) => {
                        let q = peer.game.handle(reqs);
                        line.insert("r".into(), json!("ok"));
                        line.insert("q".into(), Value::Array(q));
                    }
                    Ok(Err(e)) => {
                        line.insert("r".into(), json!(err_code(&e)));
                        line.insert("q".into(), json!([]));
                    }
                    Err(e) => {
                        line.insert("r".into(), json!(format!("P:{}", panic_message(e))));
                        peer.crashed = true;
                    }
                }
            }
            (sess, "poll") => {
                let r = catch_unwind(AssertUnwindSafe(|| match sess {
                    Sess::P2P(s) => s.poll_remote_clients(),
                    Sess::Spec(s) => s.poll_remote_clients(),
                    Sess::Sync(_) => (),
                }));
                match r {
                    Ok(()) => {
                        line.insert("r".into(), json!("ok"));
                    }
                    Err(e) => {
                        line.insert("r".into(), json!(format!("P:{}", panic_message(e))));
                        peer.crashed = true;
                    }
                }
            }
            (sess, "ev") => {
                let evs: Vec<Value> = match sess {
                    Sess::P2P(s) => s.events().map(|e| Self::event_json(&e)).collect(),
                    Sess::Spec(s) => s.events().map(|e| Self::event_json(&e)).collect(),
                    Sess::Sync(_) => vec![],
                };
                line.insert("ev".into(), Value::Array(evs));
                line.insert("r".into(), json!("ok"));
                return;
            }
            (Sess::P2P(sess), "disc") => {
                let h = s["h"].as_u64().unwrap_or(0) as usize;
                line.insert("h".into(), json!(h));
                let r = catch_unwind(AssertUnwindSafe(|| sess.disconnect_player(h)));
                line.insert(
                    "r".into(),
                    json!(match r {
                        Ok(Ok(())) => "ok".to_string(),
                        Ok(Err(e)) => err_code(&e),
                        Err(e) => {
                            peer.crashed = true;
                            format!("P:{}", panic_message(e))
                        }
                    }),
                );
            }
            (Sess::P2P(sess), "dly") => {
                let h = s["h"].as_u64().unwrap_or(0) as usize;
                let d = s["d"].as_u64().unwrap_or(0) as usize;
                line.insert("h".into(), json!(h));
                line.insert("d".into(), json!(d));
                line.insert("cur0".into(), json!(sess.current_frame()));
                let r = catch_unwind(AssertUnwindSafe(|| sess.set_input_delay(h, d)));
                line.insert(
                    "r".into(),
                    json!(match r {
                        Ok(Ok(())) => "ok".to_string(),
                        Ok(Err(e)) => err_code(&e),
                        Err(e) => {
                            peer.crashed = true;
                            format!("P:{}", panic_message(e))
                        }
                    }),
                );
            }
            (sess, "stats") => {
                let h = s["h"].as_u64().unwrap_or(0) as usize;
                line.insert("h".into(), json!(h));
                let r = catch_unwind(AssertUnwindSafe(|| match sess {
                    Sess::P2P(s) => s.network_stats(h),
                    Sess::Spec(s) => s.network_stats(),
                    Sess::Sync(_) => Err(GgrsError::NotSynchronized),
                }));
                match r {
                    Ok(Ok(ns)) => {
                        line.insert("r".into(), json!("ok"));
                        line.insert(
                            "ns".into(),
                            json!([
                                ns.ping as u64,
                                ns.send_queue_len,
                                ns.local_frames_behind,
                                ns.remote_frames_behind
                            ]),
                        );
                    }
                    Ok(Err(e)) => {
                        line.insert("r".into(), json!(err_code(&e)));
                    }
                    Err(e) => {
                        line.insert("r".into(), json!(format!("P:{}", panic_message(e))));
                        peer.crashed = true;
                    }
                }
            }
            _ => {
                line.insert("r".into(), json!("unsupported"));
            }
        }
    }
}
