//! Verification harness for gschup/ggrs: in-memory network, virtual clock, recording game,
//! schedule interpreter and trace writer.  See /verif/DESIGN.md.
pub mod game;
pub mod net;
pub mod world;
pub mod driver;

use ggrs::{Config, InputPredictor, PredictDefault, PredictRepeatLast};
use std::marker::PhantomData;

pub type Addr = u16;

/// Input types the harness can drive: the abstract value 0..=255 of the plans is embedded into the
/// session's input type and projected back for the trace.
pub trait HInput: Copy + Clone + PartialEq + Default + serde::Serialize + serde::de::DeserializeOwned + 'static {
    /// bytes per player input on the wire
    const WIDTH: usize;
    fn enc(v: u8) -> Self;
    /// the abstract value, or a number >= 1000 if the input is not the image of any abstract value
    /// (bytes of different inputs mixed up)
    fn dec(self) -> u64;
}
impl HInput for u8 {
    const WIDTH: usize = 1;
    fn enc(v: u8) -> Self {
        v
    }
    fn dec(self) -> u64 {
        self as u64
    }
}
/// four-byte inputs: every byte carries the abstract value (the default input stays all-zero)
impl HInput for u32 {
    const WIDTH: usize = 4;
    fn enc(v: u8) -> Self {
        (v as u32) * 0x0101_0101
    }
    fn dec(self) -> u64 {
        let b = self.to_le_bytes();
        if b.iter().all(|x| *x == b[0]) {
            b[0] as u64
        } else {
            1000 + (self % 1_000_000) as u64
        }
    }
}
/// project the bytes of one frame of an endpoint (WIDTH bytes per player) to abstract values
pub fn dec_frame(width: usize, bytes: &[u8]) -> Vec<u64> {
    if width <= 1 || bytes.len() % width != 0 {
        return bytes.iter().map(|b| *b as u64).collect();
    }
    bytes
        .chunks(width)
        .map(|c| if c.iter().all(|x| *x == c[0]) { c[0] as u64 } else { 1000 + c.iter().map(|x| *x as u64).sum::<u64>() })
        .collect()
}

/// Harness configuration type, generic over the predictor and the input type.
pub struct Cfg<P, I = u8>(PhantomData<(P, I)>);

impl<P, I> std::fmt::Debug for Cfg<P, I> {
    fn fmt(&self, f: &mut std::fmt::Formatter<'_>) -> std::fmt::Result {
        f.write_str("Cfg")
    }
}

impl<I: HInput, P: InputPredictor<I> + 'static> Config for Cfg<P, I> {
    type Input = I;
    type InputPredictor = P;
    type State = game::GState;
    type Address = Addr;
}

pub type CfgRepeat = Cfg<PredictRepeatLast>;
pub type CfgDefault = Cfg<PredictDefault>;
pub type CfgRepeatWide = Cfg<PredictRepeatLast, u32>;
pub type CfgDefaultWide = Cfg<PredictDefault, u32>;

/// Marker for configurations the harness can drive.
pub trait HCfg: Config<State = game::GState, Address = Addr> {
    const WIDTH: usize;
    fn enc(v: u8) -> Self::Input;
    fn dec(i: Self::Input) -> u64;
}
impl<I: HInput, P: InputPredictor<I> + 'static> HCfg for Cfg<P, I> {
    const WIDTH: usize = I::WIDTH;
    fn enc(v: u8) -> I {
        I::enc(v)
    }
    fn dec(i: I) -> u64 {
        i.dec()
    }
}

/// Install a silent panic hook (panics of the code under test are data, reported in traces).
pub fn quiet_panics() {
    std::panic::set_hook(Box::new(|_| {}));
}

pub fn panic_message(e: Box<dyn std::any::Any + Send>) -> String {
    if let Some(s) = e.downcast_ref::<&str>() {
        (*s).to_string()
    } else if let Some(s) = e.downcast_ref::<String>() {
        s.clone()
    } else {
        "panic".to_string()
    }
}
