//! Verification harness for gschup/ggrs: in-memory network, virtual clock, recording game,
//! schedule interpreter and trace writer.  See /verif/DESIGN.md.
pub mod game;
pub mod net;
pub mod world;
pub mod driver;

use ggrs::{Config, InputPredictor, PredictDefault, PredictRepeatLast};
use std::marker::PhantomData;

pub type Addr = u16;

/// Harness configuration type, generic over the predictor.
pub struct Cfg<P>(PhantomData<P>);

impl<P> std::fmt::Debug for Cfg<P> {
    fn fmt(&self, f: &mut std::fmt::Formatter<'_>) -> std::fmt::Result {
        f.write_str("Cfg")
    }
}

impl<P: InputPredictor<u8> + 'static> Config for Cfg<P> {
    type Input = u8;
    type InputPredictor = P;
    type State = game::GState;
    type Address = Addr;
}

pub type CfgRepeat = Cfg<PredictRepeatLast>;
pub type CfgDefault = Cfg<PredictDefault>;

/// Marker for configurations the harness can drive.
pub trait HCfg: Config<Input = u8, State = game::GState, Address = Addr> {}
impl<T: Config<Input = u8, State = game::GState, Address = Addr>> HCfg for T {}

/// Install a silent panic hook (panics of the code under test are data, reported in traces).
pub fn quiet_panics() {
    std::panic::set_hook(Box::new(|_| {}));
}

pub fn panic_message(e: Box<dyn std::any::Any + Send>) -> String {
    if let Some(s) = e.downcast_ref::<&str>() {
        (*s).to_string()
    } else if let Some(s) = e.downcast_ref::<String>() {
        s.clone()
    } else {
        "panic".to_string()
    }
}
