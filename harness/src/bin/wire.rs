//! wire <out.ndjson> <seed> <n-random>
//! Drives the REAL `UdpNonBlockingSocket` on the loopback interface.
//!   rx records: a raw datagram is sent to the socket from a plain std socket, followed by a
//!               sentinel message; `receive_all_messages` is called until the sentinel shows up and
//!               whatever was handed out before it belongs to the datagram.  The message is reported
//!               as canonical bytes computed here from its fields (own little-endian encoder, not
//!               bincode).
//!   tx records: a message built from a description is given to `send_to`; the raw bytes read from a
//!               plain std socket are reported next to the canonical bytes.
//! Panics are caught and logged as data.  Judged by spec/Trace_Wire.tla against spec/Wire.tla.
use ggrs::verif::{build_message, describe_message, MsgDesc};
use ggrs::{Message, NonBlockingSocket, UdpNonBlockingSocket};
use rand::rngs::StdRng;
use rand::{Rng, SeedableRng};
use serde_json::json;
use std::io::Write;
use std::net::{SocketAddr, UdpSocket};
use std::panic::{catch_unwind, AssertUnwindSafe};
use std::time::{Duration, Instant};

const SENTINEL_MAGIC: u16 = 0xfffe;

fn canon(magic: u16, d: &MsgDesc) -> Vec<u8> {
    let mut b = Vec::new();
    b.extend_from_slice(&magic.to_le_bytes());
    let tag = |b: &mut Vec<u8>, t: u32| b.extend_from_slice(&t.to_le_bytes());
    match d {
        MsgDesc::SyncRequest { nonce } => {
            tag(&mut b, 0);
            b.extend_from_slice(&nonce.to_le_bytes());
        }
        MsgDesc::SyncReply { nonce } => {
            tag(&mut b, 1);
            b.extend_from_slice(&nonce.to_le_bytes());
        }
        MsgDesc::Input {
            status,
            disconnect_requested,
            start_frame,
            ack_frame,
            bytes,
        } => {
            tag(&mut b, 2);
            b.extend_from_slice(&(status.len() as u64).to_le_bytes());
            for (d, f) in status {
                b.push(*d as u8);
                b.extend_from_slice(&f.to_le_bytes());
            }
            b.push(*disconnect_requested as u8);
            b.extend_from_slice(&start_frame.to_le_bytes());
            b.extend_from_slice(&ack_frame.to_le_bytes());
            b.extend_from_slice(&(bytes.len() as u64).to_le_bytes());
            b.extend_from_slice(bytes);
        }
        MsgDesc::InputAck { ack_frame } => {
            tag(&mut b, 3);
            b.extend_from_slice(&ack_frame.to_le_bytes());
        }
        MsgDesc::QualityReport {
            frame_advantage,
            ping,
        } => {
            tag(&mut b, 4);
            b.extend_from_slice(&frame_advantage.to_le_bytes());
            b.extend_from_slice(&ping.to_le_bytes());
        }
        MsgDesc::QualityReply { pong } => {
            tag(&mut b, 5);
            b.extend_from_slice(&pong.to_le_bytes());
        }
        MsgDesc::ChecksumReport { frame, checksum } => {
            tag(&mut b, 6);
            b.extend_from_slice(&checksum.to_le_bytes());
            b.extend_from_slice(&frame.to_le_bytes());
        }
        MsgDesc::KeepAlive => tag(&mut b, 7),
    }
    b
}

fn canon_msg(m: &Message) -> Vec<u8> {
    let (magic, d) = describe_message(m);
    canon(magic, &d)
}

fn samples(rng: &mut StdRng) -> Vec<(u16, MsgDesc)> {
    let mut v = vec![
        (1u16, MsgDesc::SyncRequest { nonce: 0x01020304 }),
        (0x1234, MsgDesc::SyncReply { nonce: 0xffffffff }),
        (7, MsgDesc::InputAck { ack_frame: -1 }),
        (
            8,
            MsgDesc::QualityReport {
                frame_advantage: -3,
                ping: 0x0102030405060708090a0b0c0d0e0f10,
            },
        ),
        (9, MsgDesc::QualityReply { pong: u128::MAX }),
        (
            10,
            MsgDesc::ChecksumReport {
                frame: 77,
                checksum: 0xdeadbeef,
            },
        ),
        (11, MsgDesc::KeepAlive),
        (
            12,
            MsgDesc::Input {
                status: vec![],
                disconnect_requested: false,
                start_frame: 0,
                ack_frame: -1,
                bytes: vec![],
            },
        ),
        (
            13,
            MsgDesc::Input {
                status: vec![(false, 5), (true, -1)],
                disconnect_requested: true,
                start_frame: 3,
                ack_frame: 2,
                bytes: vec![4, 9, 9, 0x81],
            },
        ),
        (
            14,
            MsgDesc::Input {
                status: vec![(false, 300), (false, 299), (true, 12), (false, -1)],
                disconnect_requested: false,
                start_frame: 290,
                ack_frame: 288,
                bytes: (0..40u8).collect(),
            },
        ),
    ];
    // big payloads: around the receive buffer's size
    for len in [4000usize, 4045, 4046, 4047, 4060, 5000] {
        v.push((
            15,
            MsgDesc::Input {
                status: vec![(false, 1), (false, 1)],
                disconnect_requested: false,
                start_frame: 1,
                ack_frame: 0,
                bytes: (0..len).map(|i| (i % 251) as u8).collect(),
            },
        ));
    }
    for _ in 0..6 {
        let n = rng.gen_range(0..5);
        let m = rng.gen_range(0..64);
        v.push((
            rng.gen(),
            MsgDesc::Input {
                status: (0..n).map(|_| (rng.gen(), rng.gen_range(-1..1000))).collect(),
                disconnect_requested: rng.gen(),
                start_frame: rng.gen_range(-1..1000),
                ack_frame: rng.gen_range(-1..1000),
                bytes: (0..m).map(|_| rng.gen()).collect(),
            },
        ));
    }
    v
}

struct Rig {
    sock: UdpNonBlockingSocket,
    raw: UdpSocket,
    to: SocketAddr,
    sentinel: Vec<u8>,
}

impl Rig {
    fn new() -> Rig {
        let raw = UdpSocket::bind("127.0.0.1:0").expect("bind raw");
        raw.set_read_timeout(Some(Duration::from_millis(500))).unwrap();
        // find a free port for the socket under test
        let mut port = 20000 + (std::process::id() % 20000) as u16;
        let sock = loop {
            match UdpNonBlockingSocket::bind_to_port(port) {
                Ok(s) => break s,
                Err(_) => port = port.wrapping_add(1).max(1025),
            }
        };
        let to: SocketAddr = format!("127.0.0.1:{port}").parse().unwrap();
        Rig {
            sock,
            raw,
            to,
            sentinel: canon(SENTINEL_MAGIC, &MsgDesc::KeepAlive),
        }
    }

    /// sends one raw datagram and returns what the socket handed out for it
    fn rx(&mut self, data: &[u8]) -> Result<Vec<Vec<u8>>, String> {
        self.raw.send_to(data, self.to).map_err(|e| format!("send: {e}"))?;
        self.raw.send_to(&self.sentinel, self.to).map_err(|e| format!("send: {e}"))?;
        let mut got: Vec<Vec<u8>> = Vec::new();
        let t0 = Instant::now();
        loop {
            let r = catch_unwind(AssertUnwindSafe(|| self.sock.receive_all_messages()));
            match r {
                Err(e) => {
                    // drain the sentinel so that the next case starts clean
                    std::thread::sleep(Duration::from_millis(2));
                    let _ = catch_unwind(AssertUnwindSafe(|| self.sock.receive_all_messages()));
                    return Err(ggrs_verif_harness::panic_message(e));
                }
                Ok(msgs) => {
                    for (_, m) in msgs {
                        let c = canon_msg(&m);
                        if c == self.sentinel {
                            return Ok(got);
                        }
                        got.push(c);
                    }
                }
            }
            if t0.elapsed() > Duration::from_secs(5) {
                // the sentinel itself never arrived: an environment problem, not a verdict
                eprintln!("wire: sentinel lost");
                std::process::exit(3);
            }
            std::thread::yield_now();
        }
    }

    fn tx(&mut self, m: &Message) -> Result<Vec<u8>, String> {
        let back = self.raw.local_addr().unwrap();
        catch_unwind(AssertUnwindSafe(|| self.sock.send_to(m, &back))).map_err(ggrs_verif_harness::panic_message)?;
        let mut buf = vec![0u8; 70000];
        match self.raw.recv_from(&mut buf) {
            Ok((n, _)) => Ok(buf[..n].to_vec()),
            Err(e) => Err(format!("nothing on the wire: {e}")),
        }
    }
}

fn main() {
    let args: Vec<String> = std::env::args().collect();
    ggrs_verif_harness::quiet_panics();
    let out_path = args.get(1).cloned().unwrap_or_else(|| "/dev/null".into());
    let seed: u64 = args.get(2).and_then(|s| s.parse().ok()).unwrap_or(1);
    let nrand: usize = args.get(3).and_then(|s| s.parse().ok()).unwrap_or(500);
    let mut rng = StdRng::seed_from_u64(seed);
    let f = std::fs::File::create(&out_path).expect("create out");
    let mut out = std::io::BufWriter::new(f);
    let mut rig = Rig::new();
    let (nrx, panics) = (std::cell::Cell::new(0u64), std::cell::Cell::new(0u64));
    let mut ntx = 0u64;
    let emit_rx = |rig: &mut Rig, data: &[u8], out: &mut std::io::BufWriter<std::fs::File>| {
        match rig.rx(data) {
            Ok(got) => {
                let first = got.first().cloned().unwrap_or_default();
                writeln!(out, "{}", json!({"k":"rx","data":data,"n":got.len(),"res":first})).unwrap();
            }
            Err(p) => {
                panics.set(panics.get() + 1);
                writeln!(out, "{}", json!({"k":"rx","data":data,"n":0,"res":[],"panic":p})).unwrap();
            }
        }
        nrx.set(nrx.get() + 1);
    };
    let msgs = samples(&mut rng);
    // (1) sending
    for (magic, d) in &msgs {
        let m = build_message(*magic, d);
        let c = canon(*magic, d);
        if c.len() > 60000 {
            continue;
        }
        match rig.tx(&m) {
            Ok(w) => writeln!(out, "{}", json!({"k":"tx","canon":c,"wire":w})).unwrap(),
            Err(p) => {
                panics.set(panics.get() + 1);
                writeln!(out, "{}", json!({"k":"tx","canon":c,"wire":[],"panic":p})).unwrap()
            }
        }
        ntx += 1;
    }
    // (2) every datagram of up to 1 byte, a grid of 2..7-byte headers
    emit_rx(&mut rig, &[], &mut out);
    for a in 0..=255u8 {
        emit_rx(&mut rig, &[a], &mut out);
    }
    for t in [0u8, 1, 2, 3, 4, 5, 6, 7, 8, 9, 127, 128, 255] {
        for hi in [0u8, 1, 255] {
            emit_rx(&mut rig, &[1, 0, t, hi, 0, 0], &mut out);
            emit_rx(&mut rig, &[1, 0, t, 0, hi, 0], &mut out);
            emit_rx(&mut rig, &[1, 0, t, 0, 0, hi], &mut out);
            emit_rx(&mut rig, &[1, 0, t, 0, 0], &mut out);
        }
    }
    // (3) per sample message: the message itself, then every truncation from long to short (a longer
    //     datagram has just been in the receive buffer), trailing bytes, every byte set to marker values
    for (magic, d) in &msgs {
        let c = canon(*magic, d);
        emit_rx(&mut rig, &c, &mut out);
        if c.len() <= 200 {
            for cut in (0..c.len()).rev() {
                emit_rx(&mut rig, &c[..cut], &mut out);
                // the full message again so that the buffer holds it before the next truncation
                if cut % 3 == 0 {
                    emit_rx(&mut rig, &c, &mut out);
                }
            }
            let mut t = c.clone();
            t.extend_from_slice(&[0xaa, 0xbb, 0xcc]);
            emit_rx(&mut rig, &t, &mut out);
            for i in 0..c.len() {
                for v in [0u8, 1, 2, 7, 8, 0x7f, 0x80, 0xff] {
                    if c[i] != v {
                        let mut m = c.clone();
                        m[i] = v;
                        emit_rx(&mut rig, &m, &mut out);
                    }
                }
            }
        } else {
            for cut in [c.len() - 1, c.len() - 8, 4096, 4095, 100, 30, 6] {
                if cut < c.len() {
                    emit_rx(&mut rig, &c[..cut], &mut out);
                }
            }
        }
    }
    // (4) random mutations: a sample message with 1-3 random edits (byte set, truncated, extended, spliced)
    let small: Vec<Vec<u8>> = msgs.iter().map(|(m, d)| canon(*m, d)).filter(|c| c.len() <= 200).collect();
    for _ in 0..nrand {
        let mut c = small[rng.gen_range(0..small.len())].clone();
        for _ in 0..rng.gen_range(1..4) {
            match rng.gen_range(0..5) {
                0 if !c.is_empty() => {
                    let i = rng.gen_range(0..c.len());
                    c[i] = rng.gen();
                }
                1 if !c.is_empty() => {
                    let n = rng.gen_range(0..c.len());
                    c.truncate(n);
                }
                2 => {
                    for _ in 0..rng.gen_range(1..12) {
                        c.push(rng.gen());
                    }
                }
                3 => {
                    let o = &small[rng.gen_range(0..small.len())];
                    let k = rng.gen_range(0..=o.len().min(c.len()));
                    c.truncate(k);
                    c.extend_from_slice(&o[k.min(o.len())..]);
                }
                _ => {
                    if c.len() > 8 {
                        let i = rng.gen_range(6..c.len());
                        c[i] = [0u8, 1, 2, 0xff][rng.gen_range(0..4)];
                    }
                }
            }
        }
        emit_rx(&mut rig, &c, &mut out);
    }
    out.flush().unwrap();
    println!("{}", json!({"rx": nrx.get(), "tx": ntx, "panics": panics.get()}));
}
