//! codec <mode> <out.ndjson> [args]
//!   exhaust <maxlen> [alphabet-file]  every byte string up to maxlen (optionally over an alphabet)
//!                                     through the real decode, two references
//!   sweep3                            all 3-byte strings through the real decode (panic / peak
//!                                     allocation only, nothing logged but a summary)
//!   roundtrip <seed> <n>              small exhaustive + n random (ref, inputs) through the real
//!                                     encode and decode
//!   mutate <seed> <n>                 structure-aware mutations of real payloads through decode
//! Every record is one ndjson line; panics are caught and logged as data.  Peak heap use during each
//! decode is measured with a counting allocator.
use ggrs::verif::codec;
use rand::rngs::StdRng;
use rand::{Rng, SeedableRng};
use serde_json::{json, Value};
use std::alloc::{GlobalAlloc, Layout, System};
use std::io::Write;
use std::panic::{catch_unwind, AssertUnwindSafe};
use std::sync::atomic::{AtomicUsize, Ordering};

struct Counting;
static CUR: AtomicUsize = AtomicUsize::new(0);
static PEAK: AtomicUsize = AtomicUsize::new(0);

unsafe impl GlobalAlloc for Counting {
    unsafe fn alloc(&self, l: Layout) -> *mut u8 {
        let c = CUR.fetch_add(l.size(), Ordering::Relaxed) + l.size();
        PEAK.fetch_max(c, Ordering::Relaxed);
        System.alloc(l)
    }
    unsafe fn alloc_zeroed(&self, l: Layout) -> *mut u8 {
        let c = CUR.fetch_add(l.size(), Ordering::Relaxed) + l.size();
        PEAK.fetch_max(c, Ordering::Relaxed);
        System.alloc_zeroed(l)
    }
    unsafe fn dealloc(&self, p: *mut u8, l: Layout) {
        CUR.fetch_sub(l.size(), Ordering::Relaxed);
        System.dealloc(p, l)
    }
    unsafe fn realloc(&self, p: *mut u8, l: Layout, new: usize) -> *mut u8 {
        if new > l.size() {
            let c = CUR.fetch_add(new - l.size(), Ordering::Relaxed) + (new - l.size());
            PEAK.fetch_max(c, Ordering::Relaxed);
        } else {
            CUR.fetch_sub(l.size() - new, Ordering::Relaxed);
        }
        System.realloc(p, l, new)
    }
}

#[global_allocator]
static A: Counting = Counting;

const SMALL: usize = 64; // results up to this many decoded bytes are logged in full

/// result of the real decode: ["err"] | ["ok", inputs] | ["big", count, total] | ["panic", msg],
/// plus the peak number of bytes allocated while decoding
fn real_decode(reference: &[u8], data: &[u8]) -> (Value, usize) {
    let base = CUR.load(Ordering::Relaxed);
    PEAK.store(base, Ordering::Relaxed);
    let r = catch_unwind(AssertUnwindSafe(|| codec::decode(reference, data)));
    let peak = PEAK.load(Ordering::Relaxed).saturating_sub(base);
    let v = match r {
        Ok(Ok(inputs)) => {
            let total: usize = inputs.iter().map(|i| i.len() + 2).sum();
            if total <= SMALL {
                json!(["ok", inputs])
            } else {
                json!(["big", inputs.len(), total])
            }
        }
        Ok(Err(_)) => json!(["err"]),
        Err(e) => json!(["panic", ggrs_verif_harness::panic_message(e)]),
    };
    (v, peak)
}

fn main() {
    let args: Vec<String> = std::env::args().collect();
    ggrs_verif_harness::quiet_panics();
    let mode = args.get(1).map(|s| s.as_str()).unwrap_or("");
    let out_path = args.get(2).cloned().unwrap_or_else(|| "/dev/null".into());
    let f = std::fs::File::create(&out_path).expect("create out");
    let mut out = std::io::BufWriter::new(f);
    let mut max_peak = 0usize;
    let mut panics = 0u64;
    let mut n = 0u64;
    let refs: Vec<Vec<u8>> = vec![vec![], vec![7]];
    match mode {
        "exhaust" => {
            let maxlen: usize = args[3].parse().unwrap();
            let alphabet: Vec<u8> = match args.get(4) {
                Some(a) => a.split(',').map(|x| x.parse().unwrap()).collect(),
                None => (0..=255u8).collect(),
            };
            for len in 0..=maxlen {
                let mut idx = vec![0usize; len];
                loop {
                    let data: Vec<u8> = idx.iter().map(|i| alphabet[*i]).collect();
                    for r in &refs {
                        let (res, peak) = real_decode(r, &data);
                        max_peak = max_peak.max(peak);
                        if res[0] == "panic" {
                            panics += 1;
                        }
                        n += 1;
                        writeln!(out, "{}", json!({"k":"dec","ref":r,"data":data,"res":res,"peak":peak})).unwrap();
                    }
                    // next
                    let mut p = len;
                    loop {
                        if p == 0 {
                            break;
                        }
                        p -= 1;
                        idx[p] += 1;
                        if idx[p] < alphabet.len() {
                            break;
                        }
                        idx[p] = 0;
                        if p == 0 {
                            p = usize::MAX;
                            break;
                        }
                    }
                    if len == 0 || p == usize::MAX {
                        break;
                    }
                }
            }
        }
        "sweep3" => {
            let progress = out_path.clone() + ".last";
            for a in 0..=255u8 {
                std::fs::write(&progress, format!("{a}")).ok();
                for b in 0..=255u8 {
                    for c in 0..=255u8 {
                        let data = [a, b, c];
                        let (res, peak) = real_decode(&[7], &data);
                        max_peak = max_peak.max(peak);
                        n += 1;
                        if res[0] == "panic" {
                            panics += 1;
                            if panics <= 20 {
                                writeln!(out, "{}", json!({"k":"dec","ref":[7],"data":data,"res":res,"peak":peak})).unwrap();
                            }
                        }
                    }
                }
            }
        }
        "roundtrip" => {
            let seed: u64 = args[3].parse().unwrap();
            let cnt: usize = args[4].parse().unwrap();
            let mut rng = StdRng::seed_from_u64(seed);
            let bytes = [0u8, 1, 127, 128, 255];
            // small exhaustive: reference length 0..2, up to 2 inputs of length 0..2 over 5 byte values
            let mut seqs: Vec<Vec<u8>> = vec![vec![]];
            for a in bytes {
                seqs.push(vec![a]);
                for b in bytes {
                    seqs.push(vec![a, b]);
                }
            }
            let mut cases: Vec<(Vec<u8>, Vec<Vec<u8>>)> = Vec::new();
            for r in &seqs {
                cases.push((r.clone(), vec![]));
                for x in &seqs {
                    cases.push((r.clone(), vec![x.clone()]));
                }
            }
            for _ in 0..3000 {
                let r = seqs[rng.gen_range(0..seqs.len())].clone();
                let k = rng.gen_range(2..=3);
                let ins = (0..k).map(|_| seqs[rng.gen_range(0..seqs.len())].clone()).collect();
                cases.push((r, ins));
            }
            // random large: lengths up to 65535, long runs of 0x00 / 0xFF
            for i in 0..cnt {
                let rl = if i % 3 == 0 { rng.gen_range(0..70000usize).min(65535) } else { rng.gen_range(0..40) };
                let mk = |rng: &mut StdRng, len: usize| -> Vec<u8> {
                    let style = rng.gen_range(0..4);
                    (0..len)
                        .map(|j| match style {
                            0 => rng.gen(),
                            1 => if (j / 37) % 2 == 0 { 0 } else { 255 },
                            2 => if rng.gen::<f64>() < 0.9 { 0 } else { rng.gen() },
                            _ => if rng.gen::<f64>() < 0.9 { 255 } else { rng.gen() },
                        })
                        .collect()
                };
                let r = mk(&mut rng, rl);
                let k = rng.gen_range(0..5);
                let ins: Vec<Vec<u8>> = (0..k)
                    .map(|_| {
                        let l = match rng.gen_range(0..4) {
                            0 => 0,
                            1 => rng.gen_range(0..20),
                            2 => rl,
                            _ => rng.gen_range(0..70000usize).min(65535),
                        };
                        let mut v = mk(&mut rng, l);
                        if rng.gen::<f64>() < 0.5 {
                            for (j, b) in v.iter_mut().enumerate() {
                                if j < r.len() && rng.gen::<f64>() < 0.95 {
                                    *b = r[j];
                                }
                            }
                        }
                        v
                    })
                    .collect();
                cases.push((r, ins));
            }
            // many inputs in one packet: around the sender's pending-output limit (128) and around the
            // decoder's limit (256 inputs; more must be rejected)
            for cnt_in in [100usize, 127, 128, 129, 200, 255, 256, 257, 300] {
                for len in [0usize, 1, 2] {
                    let r: Vec<u8> = (0..len).map(|j| (j * 7) as u8).collect();
                    let ins: Vec<Vec<u8>> = (0..cnt_in)
                        .map(|i| (0..len).map(|j| ((i + j) % 3) as u8 * 127).collect())
                        .collect();
                    cases.push((r, ins));
                }
            }
            for (r, ins) in cases {
                n += 1;
                let enc = catch_unwind(AssertUnwindSafe(|| codec::encode(&r, &ins)));
                let total: usize = ins.iter().map(|i| i.len()).sum::<usize>() + r.len();
                match enc {
                    Ok(bytes) => {
                        let back = catch_unwind(AssertUnwindSafe(|| codec::decode(&r, &bytes)));
                        let same = if ins.len() > 256 {
                            matches!(&back, Ok(Err(_)))
                        } else {
                            matches!(&back, Ok(Ok(b)) if *b == ins)
                        };
                        if !same {
                            panics += 1;
                        }
                        if (total <= 12 && ins.len() <= 256) || !same {
                            let shown_ins: Vec<Vec<u8>> = if total <= 4096 { ins.clone() } else { vec![] };
                            writeln!(out, "{}", json!({"k":"enc","ref": if total <= 4096 { r.clone() } else { vec![] },
                                "inputs": shown_ins, "bytes": if total <= 4096 { bytes.clone() } else { vec![] },
                                "same": same, "lens": ins.iter().map(|i| i.len()).collect::<Vec<_>>() })).unwrap();
                        }
                    }
                    Err(e) => {
                        panics += 1;
                        writeln!(out, "{}", json!({"k":"enc","ref":[],"inputs":[],"bytes":[],"same":false,
                            "panic": ggrs_verif_harness::panic_message(e)})).unwrap();
                    }
                }
            }
        }
        "mutate" => {
            let seed: u64 = args[3].parse().unwrap();
            let cnt: usize = args[4].parse().unwrap();
            let mut rng = StdRng::seed_from_u64(seed);
            for _ in 0..cnt {
                let r: Vec<u8> = (0..rng.gen_range(0..4)).map(|_| rng.gen()).collect();
                let ins: Vec<Vec<u8>> = (0..rng.gen_range(1..6))
                    .map(|_| (0..r.len()).map(|_| if rng.gen::<f64>() < 0.7 { 0 } else { rng.gen() }).collect())
                    .collect();
                let mut data = codec::encode(&r, &ins);
                match rng.gen_range(0..5) {
                    0 => {
                        // bit flip
                        if !data.is_empty() {
                            let i = rng.gen_range(0..data.len());
                            data[i] ^= 1 << rng.gen_range(0..8);
                        }
                    }
                    1 => {
                        let l = rng.gen_range(0..=data.len());
                        data.truncate(l);
                    }
                    2 => {
                        // varint length inflation: prepend continuation bytes
                        let k = rng.gen_range(1..11);
                        let mut v: Vec<u8> = (0..k).map(|_| 0x80 | rng.gen::<u8>()).collect();
                        v.push(rng.gen::<u8>() & 0x7f);
                        v.extend_from_slice(&data);
                        data = v;
                    }
                    3 => {
                        let i = rng.gen_range(0..=data.len());
                        data.insert(i, rng.gen());
                    }
                    _ => {
                        data = (0..rng.gen_range(0..12)).map(|_| rng.gen()).collect();
                    }
                }
                let (res, peak) = real_decode(&r, &data);
                max_peak = max_peak.max(peak);
                n += 1;
                if res[0] == "panic" {
                    panics += 1;
                }
                if data.len() <= 4 || res[0] == "panic" || peak > 40_000_000 {
                    writeln!(out, "{}", json!({"k":"dec","ref":r,"data":data,"res":res,"peak":peak})).unwrap();
                }
            }
        }
        _ => {
            eprintln!("unknown mode");
            std::process::exit(2);
        }
    }
    out.flush().unwrap();
    println!("{}", json!({"mode": mode, "cases": n, "panics_or_mismatches": panics, "max_peak": max_peak}));
}
