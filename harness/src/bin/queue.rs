//! queue <behaviours.ndjson> <out.ndjson> <predictor: repeat|default>
//! Each input line is one behaviour of spec/MC_Queue.tla: a list of steps
//!   {op:"add", f, v, ret} | {op:"input", f, v, st} | {op:"reset", f} | {op:"discard", f}
//! replayed on the real input queue (verif::InputQueueProbe); every returned value is compared.
use ggrs::verif::InputQueueProbe;
use ggrs::InputStatus;
use ggrs_verif_harness::{panic_message, quiet_panics, CfgDefault, CfgRepeat, HCfg};
use serde_json::{json, Value};
use std::io::{BufRead, Write};
use std::panic::{catch_unwind, AssertUnwindSafe};

fn run<T: HCfg>(steps: &[Value]) -> Result<(), String> {
    let mut q = InputQueueProbe::<T>::new();
    for (i, s) in steps.iter().enumerate() {
        let f = s["f"].as_i64().unwrap_or(0) as i32;
        match s["op"].as_str().unwrap_or("") {
            "add" => {
                let r = q.add_input(f, T::enc(s["v"].as_u64().unwrap_or(0) as u8));
                if r as i64 != s["ret"].as_i64().unwrap_or(-9) {
                    return Err(format!("step {i}: add_input({f}) returned {r}, specification {}", s["ret"]));
                }
            }
            "input" => {
                let (v, st) = q.input(f);
                let v = T::dec(v);
                let stc = match st {
                    InputStatus::Confirmed => 0,
                    InputStatus::Predicted => 1,
                    InputStatus::Disconnected => 2,
                };
                if v != s["v"].as_u64().unwrap_or(99) || stc != s["st"].as_i64().unwrap_or(-9) {
                    return Err(format!("step {i}: input({f}) = ({v}, {stc}), specification ({}, {})", s["v"], s["st"]));
                }
            }
            "reset" => {
                if q.first_incorrect_frame() != f {
                    return Err(format!("step {i}: first_incorrect_frame {} , specification {f}", q.first_incorrect_frame()));
                }
                q.reset_prediction();
            }
            "discard" => q.discard_confirmed_frames(f),
            _ => {}
        }
    }
    Ok(())
}

fn main() {
    let args: Vec<String> = std::env::args().collect();
    quiet_panics();
    let inp = std::io::BufReader::new(std::fs::File::open(&args[1]).expect("behaviours"));
    let mut out = std::io::BufWriter::new(std::fs::File::create(&args[2]).expect("out"));
    let default = args.get(3).map(|s| s == "default").unwrap_or(false);
    let (mut n, mut steps_total, mut bad) = (0u64, 0u64, 0u64);
    for line in inp.lines() {
        let line = line.unwrap();
        if line.trim().is_empty() {
            continue;
        }
        let steps: Vec<Value> = serde_json::from_str(&line).expect("behaviour");
        n += 1;
        steps_total += steps.len() as u64;
        let r = catch_unwind(AssertUnwindSafe(|| {
            if default {
                run::<CfgDefault>(&steps)
            } else {
                run::<CfgRepeat>(&steps)
            }
        }));
        let err = match r {
            Ok(Ok(())) => None,
            Ok(Err(e)) => Some(e),
            Err(e) => Some(format!("panic: {}", panic_message(e))),
        };
        if let Some(e) = err {
            bad += 1;
            if bad <= 5 {
                writeln!(out, "{}", json!({"why": e, "steps": steps})).unwrap();
            }
        }
    }
    out.flush().unwrap();
    println!("{}", json!({"behaviours": n, "steps": steps_total, "mismatches": bad}));
}
