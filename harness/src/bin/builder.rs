//! builder <cases.ndjson> <out.ndjson>
//! Each input line: {"hist":[call...], "next":[{"call":call,"res":"ok"|"err"|"p2p"|"synctest"|"spectator"}...]}
//! (printed by TLC from spec/Builder.tla).  For every case the history is replayed on the real
//! SessionBuilder, then every `next` call is applied to a fresh replay and its result compared with
//! the specification's.  Sessions that are returned are polled and advanced under catch_unwind.
use ggrs::{DesyncDetection, GgrsRequest, PlayerType, SessionBuilder};
use ggrs_verif_harness::net::{Net, SimSocket};
use ggrs_verif_harness::{panic_message, quiet_panics, CfgRepeat};
use serde_json::{json, Value};
use std::cell::RefCell;
use std::io::{BufRead, Write};
use std::panic::{catch_unwind, AssertUnwindSafe};
use std::rc::Rc;

type B = SessionBuilder<CfgRepeat>;

fn ptype(t: &str) -> PlayerType<u16> {
    match t {
        "L" => PlayerType::Local,
        "Ra" => PlayerType::Remote(10),
        "Rb" => PlayerType::Remote(11),
        "Sa" => PlayerType::Spectator(10),
        _ => PlayerType::Spectator(12),
    }
}

enum Out {
    Builder(B),
    Err,
    Session(&'static str, Vec<String>),
}

fn exercise_requests(reqs: Vec<GgrsRequest<CfgRepeat>>, game: &mut ggrs_verif_harness::game::Game) {
    game.handle(reqs);
}

fn apply(b: B, call: &Value) -> Out {
    let n = call.get("n").and_then(|v| v.as_i64()).unwrap_or(0);
    match call["c"].as_str().unwrap_or("") {
        "add_player" => match b.add_player(ptype(call["t"].as_str().unwrap_or("L")), call["h"].as_u64().unwrap_or(0) as usize) {
            Ok(b) => Out::Builder(b),
            Err(_) => Out::Err,
        },
        "with_num_players" => match b.with_num_players(n as usize) {
            Ok(b) => Out::Builder(b),
            Err(_) => Out::Err,
        },
        "with_max_prediction_window" => Out::Builder(b.with_max_prediction_window(n as usize)),
        "with_input_delay" => Out::Builder(b.with_input_delay(n as usize)),
        "with_sparse_saving_mode" => Out::Builder(b.with_sparse_saving_mode(call["b"].as_bool().unwrap_or(false))),
        "with_desync_detection_mode" => Out::Builder(b.with_desync_detection_mode(if n < 0 {
            DesyncDetection::Off
        } else {
            DesyncDetection::On { interval: n as u32 }
        })),
        "with_fps" => match b.with_fps(n as usize) {
            Ok(b) => Out::Builder(b),
            Err(_) => Out::Err,
        },
        "with_check_distance" => Out::Builder(b.with_check_distance(n as usize)),
        "with_max_frames_behind" => match b.with_max_frames_behind(n as usize) {
            Ok(b) => Out::Builder(b),
            Err(_) => Out::Err,
        },
        "with_catchup_speed" => match b.with_catchup_speed(n as usize) {
            Ok(b) => Out::Builder(b),
            Err(_) => Out::Err,
        },
        "start_p2p_session" => {
            let net = Rc::new(RefCell::new(Net::default()));
            match b.start_p2p_session(SimSocket { me: 0, net }) {
                Err(_) => Out::Err,
                Ok(mut s) => {
                    // any session the builder returns can be polled and advanced without panicking
                    let mut notes = Vec::new();
                    let mut game = ggrs_verif_harness::game::Game::new();
                    for _ in 0..12 {
                        s.poll_remote_clients();
                        for h in s.local_player_handles() {
                            let _ = s.add_local_input(h, 1);
                        }
                        match s.advance_frame() {
                            Ok(reqs) => exercise_requests(reqs, &mut game),
                            Err(e) => notes.push(format!("{e:?}")),
                        }
                        let _ = s.events().count();
                        instant::verif_advance_ms(17);
                    }
                    notes.dedup();
                    Out::Session("p2p", notes)
                }
            }
        }
        "start_synctest_session" => match b.start_synctest_session() {
            Err(_) => Out::Err,
            Ok(mut s) => {
                let mut game = ggrs_verif_harness::game::Game::new();
                let mut notes = Vec::new();
                for _ in 0..12 {
                    for h in 0..s.num_players() {
                        let _ = s.add_local_input(h, 1);
                    }
                    match s.advance_frame() {
                        Ok(reqs) => exercise_requests(reqs, &mut game),
                        Err(e) => notes.push(format!("{e:?}")),
                    }
                }
                notes.dedup();
                Out::Session("synctest", notes)
            }
        },
        _ => {
            let net = Rc::new(RefCell::new(Net::default()));
            let mut s = b.start_spectator_session(10, SimSocket { me: 0, net });
            let mut notes = Vec::new();
            for _ in 0..12 {
                s.poll_remote_clients();
                if let Err(e) = s.advance_frame() {
                    notes.push(format!("{e:?}"));
                }
                let _ = s.events().count();
                instant::verif_advance_ms(17);
            }
            notes.dedup();
            Out::Session("spectator", notes)
        }
    }
}

fn replay(hist: &[Value]) -> Result<B, String> {
    let mut b = B::new();
    for c in hist {
        match apply(b, c) {
            Out::Builder(nb) => b = nb,
            _ => return Err(format!("history call {c} did not return a builder")),
        }
    }
    Ok(b)
}

fn main() {
    let args: Vec<String> = std::env::args().collect();
    quiet_panics();
    let inp = std::io::BufReader::new(std::fs::File::open(&args[1]).expect("cases"));
    let mut out = std::io::BufWriter::new(std::fs::File::create(&args[2]).expect("out"));
    let (mut cases, mut calls, mut mism, mut panics, mut sessions) = (0u64, 0u64, 0u64, 0u64, 0u64);
    for line in inp.lines() {
        let line = line.unwrap();
        if line.trim().is_empty() {
            continue;
        }
        let case: Value = serde_json::from_str(&line).expect("case json");
        let hist: Vec<Value> = case["hist"].as_array().cloned().unwrap_or_default();
        cases += 1;
        for nx in case["next"].as_array().cloned().unwrap_or_default() {
            calls += 1;
            let expected = nx["res"].as_str().unwrap_or("").to_string();
            let r = catch_unwind(AssertUnwindSafe(|| {
                instant::verif_set_ms(1_000_000);
                let b = replay(&hist)?;
                Ok::<Out, String>(apply(b, &nx["call"]))
            }));
            let (actual, detail) = match r {
                Ok(Ok(Out::Builder(_))) => ("ok".to_string(), json!(null)),
                Ok(Ok(Out::Err)) => ("err".to_string(), json!(null)),
                Ok(Ok(Out::Session(k, notes))) => {
                    sessions += 1;
                    (k.to_string(), json!(notes))
                }
                Ok(Err(e)) => ("history-diverged".to_string(), json!(e)),
                Err(e) => {
                    panics += 1;
                    ("panic".to_string(), json!(panic_message(e)))
                }
            };
            if actual != expected {
                mism += 1;
                writeln!(out, "{}", json!({"hist": hist, "call": nx["call"], "expected": expected, "actual": actual, "detail": detail})).unwrap();
            }
        }
    }
    out.flush().unwrap();
    println!("{}", json!({"cases": cases, "calls": calls, "mismatches": mism, "panics": panics, "sessions_exercised": sessions}));
}
