//! timesync <out.ndjson> <seed> <n>
//! Drives the real TimeSync window (verif::TimeSyncProbe) with random and adversarial sequences of
//! (frame, local advantage, remote advantage) and logs the average it reports after every step.
use ggrs::verif::TimeSyncProbe;
use rand::rngs::StdRng;
use rand::{Rng, SeedableRng};
use serde_json::json;
use std::io::Write;

fn main() {
    let args: Vec<String> = std::env::args().collect();
    let mut out = std::io::BufWriter::new(std::fs::File::create(&args[1]).unwrap());
    let seed: u64 = args[2].parse().unwrap();
    let n: usize = args[3].parse().unwrap();
    let mut rng = StdRng::seed_from_u64(seed);
    let mut recs = 0;
    for case in 0..n {
        let mut ts = TimeSyncProbe::new();
        let len = rng.gen_range(1..90);
        let style = case % 5;
        let k: i32 = rng.gen_range(-9..10);
        let mut steps = Vec::new();
        let start = rng.gen_range(0..100);
        for i in 0..len {
            let frame = start + i as i32;
            let (l, r) = match style {
                0 => (-k, k),
                1 => (rng.gen_range(-8..9), rng.gen_range(-8..9)),
                2 => (rng.gen_range(-300..300), rng.gen_range(-300..300)),
                3 => (if i % 2 == 0 { -k } else { -k - 1 }, if i % 3 == 0 { k + 1 } else { k }),
                _ => (rng.gen_range(-2..3) * 30, rng.gen_range(-2..3) * 30 + (i as i32 % 2)),
            };
            ts.advance_frame(frame, l, r);
            steps.push(json!([frame, l, r, ts.average_frame_advantage()]));
        }
        writeln!(out, "{}", json!({"k": "ts", "steps": steps})).unwrap();
        recs += 1;
    }
    out.flush().unwrap();
    println!("{}", json!({"records": recs}));
}
