//! drive <plans.json> <out.ndjson> [detail]
//! Executes every plan (random driver) or schedule ({"cfg":..,"steps":[..]}) in the file against
//! the real sessions and writes the concatenated trace.
use ggrs_verif_harness::driver::{run_plan, run_schedule};
use ggrs_verif_harness::{quiet_panics, CfgDefault, CfgDefaultWide, CfgRepeat, CfgRepeatWide};
use serde_json::Value;
use std::io::Write;

fn main() {
    let args: Vec<String> = std::env::args().collect();
    if args.len() < 3 {
        eprintln!("usage: drive <plans.json> <out.ndjson> [detail]");
        std::process::exit(2);
    }
    let detail: u8 = args.get(3).and_then(|s| s.parse().ok()).unwrap_or(0);
    quiet_panics();
    let text = std::fs::read_to_string(&args[1]).expect("read plans");
    let plans: Vec<Value> = if text.trim_start().starts_with('[') {
        serde_json::from_str(&text).expect("parse plans")
    } else {
        text.lines()
            .filter(|l| !l.trim().is_empty())
            .map(|l| serde_json::from_str(l).expect("parse plan line"))
            .collect()
    };
    let f = std::fs::File::create(&args[2]).expect("create out");
    let mut out = std::io::BufWriter::new(f);
    let mut nlines = 0u64;
    for plan in &plans {
        let mut emit = |v: &Value| {
            serde_json::to_writer(&mut out, v).unwrap();
            out.write_all(b"\n").unwrap();
            nlines += 1;
        };
        let pred = plan
            .get("cfg")
            .and_then(|c| c.get("predictor"))
            .and_then(|v| v.as_str())
            .unwrap_or("repeat")
            .to_string();
        // cfg.wide: four-byte inputs instead of one-byte inputs
        let wide = plan
            .get("cfg")
            .and_then(|c| c.get("wide"))
            .and_then(|v| v.as_bool())
            .unwrap_or(false);
        let r = if wide {
            if let Some(steps) = plan.get("steps").and_then(|s| s.as_array()) {
                let cfg = plan.get("cfg").expect("schedule cfg");
                let cap = plan.get("linkcap").and_then(|v| v.as_u64()).map(|v| v as usize);
                if pred == "default" {
                    run_schedule::<CfgDefaultWide>(cfg, steps, detail, cap, &mut emit)
                } else {
                    run_schedule::<CfgRepeatWide>(cfg, steps, detail, cap, &mut emit)
                }
            } else if pred == "default" {
                run_plan::<CfgDefaultWide>(plan, detail, &mut emit)
            } else {
                run_plan::<CfgRepeatWide>(plan, detail, &mut emit)
            }
        } else if let Some(steps) = plan.get("steps").and_then(|s| s.as_array()) {
            let cfg = plan.get("cfg").expect("schedule cfg");
            let cap = plan.get("linkcap").and_then(|v| v.as_u64()).map(|v| v as usize);
            if pred == "default" {
                run_schedule::<CfgDefault>(cfg, steps, detail, cap, &mut emit)
            } else {
                run_schedule::<CfgRepeat>(cfg, steps, detail, cap, &mut emit)
            }
        } else if pred == "default" {
            run_plan::<CfgDefault>(plan, detail, &mut emit)
        } else {
            run_plan::<CfgRepeat>(plan, detail, &mut emit)
        };
        if let Err(e) = r {
            eprintln!("plan failed to start: {e}");
            std::process::exit(2);
        }
    }
    out.flush().unwrap();
    eprintln!("drive: {} plans, {} lines", plans.len(), nlines);
}
