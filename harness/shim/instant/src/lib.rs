//! Drop-in replacement for the parts of `instant` that ggrs uses, backed by a thread-local
//! virtual clock in milliseconds that only the verification harness advances.
use std::cell::Cell;
use std::ops::{Add, AddAssign, Sub, SubAssign};
pub use std::time::Duration;

thread_local! {
    static NOW_MS: Cell<u64> = Cell::new(1_000_000);
}

/// Base of the virtual wall clock (so that `millis_since_epoch` is never near zero).
const EPOCH_BASE_MS: u128 = 1_700_000_000_000;

pub fn verif_set_ms(ms: u64) {
    NOW_MS.with(|c| c.set(ms));
}
pub fn verif_advance_ms(ms: u64) {
    NOW_MS.with(|c| c.set(c.get() + ms));
}
pub fn verif_now_ms() -> u64 {
    NOW_MS.with(|c| c.get())
}
thread_local! {
    static YIELD: std::cell::RefCell<Option<Box<dyn FnMut()>>> = std::cell::RefCell::new(None);
}
/// What happens when the code under test yields inside a bounded wait loop
/// (`P2PSession::advance_frame_with_wait_timeout`).  Without a callback the clock advances 1 ms.
pub fn verif_set_yield(f: Option<Box<dyn FnMut()>>) {
    YIELD.with(|y| *y.borrow_mut() = f);
}
pub fn verif_yield() {
    let f = YIELD.with(|y| y.borrow_mut().take());
    match f {
        Some(mut f) => {
            f();
            YIELD.with(|y| {
                let mut y = y.borrow_mut();
                if y.is_none() {
                    *y = Some(f);
                }
            });
        }
        None => verif_advance_ms(1),
    }
}
pub fn verif_epoch_millis() -> u128 {
    EPOCH_BASE_MS + verif_now_ms() as u128
}

#[derive(Copy, Clone, Debug, PartialEq, Eq, PartialOrd, Ord, Hash)]
pub struct Instant(Duration);

impl Instant {
    pub fn now() -> Self {
        Instant(Duration::from_millis(verif_now_ms()))
    }
    pub fn duration_since(&self, earlier: Instant) -> Duration {
        self.0.checked_sub(earlier.0).unwrap_or_default()
    }
    pub fn saturating_duration_since(&self, earlier: Instant) -> Duration {
        self.0.checked_sub(earlier.0).unwrap_or_default()
    }
    pub fn checked_duration_since(&self, earlier: Instant) -> Option<Duration> {
        self.0.checked_sub(earlier.0)
    }
    pub fn elapsed(&self) -> Duration {
        Instant::now().duration_since(*self)
    }
    pub fn checked_add(&self, d: Duration) -> Option<Instant> {
        self.0.checked_add(d).map(Instant)
    }
    pub fn checked_sub(&self, d: Duration) -> Option<Instant> {
        self.0.checked_sub(d).map(Instant)
    }
}

impl Add<Duration> for Instant {
    type Output = Instant;
    fn add(self, rhs: Duration) -> Instant {
        Instant(self.0 + rhs)
    }
}
impl AddAssign<Duration> for Instant {
    fn add_assign(&mut self, rhs: Duration) {
        self.0 += rhs;
    }
}
impl Sub<Duration> for Instant {
    type Output = Instant;
    fn sub(self, rhs: Duration) -> Instant {
        Instant(self.0 - rhs)
    }
}
impl SubAssign<Duration> for Instant {
    fn sub_assign(&mut self, rhs: Duration) {
        self.0 -= rhs;
    }
}
impl Sub<Instant> for Instant {
    type Output = Duration;
    fn sub(self, rhs: Instant) -> Duration {
        self.duration_since(rhs)
    }
}

pub fn now() -> f64 {
    verif_now_ms() as f64
}
